"""python -m mc.replay <violation.json>: re-run one recorded case on the real
code without the explorer; exit 1 if the recorded signature still shows."""
import json
import sys

from . import engine


def main(argv):
    engine.pin_environment("mc.replay", argv)
    engine.assert_repo_import()
    rec = json.loads(open(argv[0]).read())
    sigs = engine.replay_case(rec["module"], rec["case"])
    print("signatures observed:", sigs)
    if rec["signature"] in sigs:
        print(f"VIOLATION property={rec['property']} replay={argv[0]}")
        return 1
    print("recorded signature not reproduced")
    return 0


if __name__ == "__main__":
    sys.exit(main(sys.argv[1:]))
