"""python -m mc.run <ID> [quick|thorough]   (cwd=/verif)"""
import os
import sys

from . import engine


def main(argv):
    if not argv:
        print(__doc__)
        return 2
    prop = argv[0].upper()
    tier = argv[1] if len(argv) > 1 else os.environ.get("VERIF_TIER", "quick")
    if tier not in ("quick", "thorough"):
        tier = "quick"
    seed = int(os.environ.get("VERIF_SEED", "0") or 0)
    engine.pin_environment("mc.run", argv)
    return engine.run_check(f"mc.checks.{prop.lower()}", tier, seed)


if __name__ == "__main__":
    sys.exit(main(sys.argv[1:]))
