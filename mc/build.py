"""Harness-side structure builders (independent of pdb2pqr code).

Peptides are chained from the residue templates themselves: every residue is
the rigid image of its AA.xml template (numpy Kabsch fit on N, CA, C), the
peptide bond geometry comes from the template's own C-1 / N+1 pseudo atoms
(PEPTIDE patch) with omega = 180 degrees, so built inputs carry no internal
distortion.  Nucleotide strands are NA.xml templates translated so that
P(i+1) sits 1.6 A beyond O3'(i).
"""

import itertools
import math

import numpy as np

from .pdbfmt import atom_line, ter_line
from .refs import templates as T


# ---------------------------------------------------------------------------
# geometry helpers
# ---------------------------------------------------------------------------
def kabsch(P, Q):
    """Rigid transform (R, t) minimising |R P + t - Q| (proper rotation)."""
    P = np.asarray(P, float)
    Q = np.asarray(Q, float)
    pc, qc = P.mean(0), Q.mean(0)
    H = (P - pc).T @ (Q - qc)
    U, _S, Vt = np.linalg.svd(H)
    d = np.sign(np.linalg.det(Vt.T @ U.T))
    D = np.diag([1.0, 1.0, d])
    R = Vt.T @ D @ U.T
    t = qc - R @ pc
    return R, t


def nerf(a, b, c, length, angle_deg, torsion_deg):
    """Place d such that |cd|=length, angle(b,c,d)=angle, dihedral(a,b,c,d)=
    torsion."""
    a, b, c = (np.asarray(v, float) for v in (a, b, c))
    ang = math.radians(angle_deg)
    tor = math.radians(torsion_deg)
    bc = c - b
    bc /= np.linalg.norm(bc)
    n = np.cross(b - a, bc)
    n /= np.linalg.norm(n)
    m = np.cross(n, bc)
    d2 = np.array([-length * math.cos(ang),
                   length * math.sin(ang) * math.cos(tor),
                   length * math.sin(ang) * math.sin(tor)])
    return c + d2[0] * bc + d2[1] * m + d2[2] * n


def angle(a, b, c):
    a, b, c = (np.asarray(v, float) for v in (a, b, c))
    v1, v2 = a - b, c - b
    cosv = np.dot(v1, v2) / (np.linalg.norm(v1) * np.linalg.norm(v2))
    return math.degrees(math.acos(max(-1.0, min(1.0, cosv))))


def dihedral(a, b, c, d):
    a, b, c, d = (np.asarray(v, float) for v in (a, b, c, d))
    b0 = a - b
    b1 = c - b
    b2 = d - c
    b1n = b1 / np.linalg.norm(b1)
    v = b0 - np.dot(b0, b1n) * b1n
    w = b2 - np.dot(b2, b1n) * b1n
    x = np.dot(v, w)
    y = np.dot(np.cross(b1n, v), w)
    return math.degrees(math.atan2(y, x))


def dist(a, b):
    return float(np.linalg.norm(np.asarray(a, float) - np.asarray(b, float)))


CUBE_ROTATIONS = []
for perm in itertools.permutations(range(3)):
    for signs in itertools.product((1, -1), repeat=3):
        M = np.zeros((3, 3))
        for i, (p, s) in enumerate(zip(perm, signs)):
            M[i, p] = s
        if round(np.linalg.det(M)) == 1:
            CUBE_ROTATIONS.append(M)
assert len(CUBE_ROTATIONS) == 24

DIRECTIONS14 = [np.array(v, float) / np.linalg.norm(v) for v in
                [(1, 0, 0), (-1, 0, 0), (0, 1, 0), (0, -1, 0), (0, 0, 1),
                 (0, 0, -1)] + list(itertools.product((1, -1), repeat=3))]


# ---------------------------------------------------------------------------
# atoms
# ---------------------------------------------------------------------------
class BAtom(dict):
    """name, res_name, chain, res_seq, icode, xyz (np.array), record, res_idx"""

    @property
    def xyz(self):
        return self["xyz"]


def _template_for(resname, position, hydrogens):
    """Template atoms (name -> xyz) for an input residue name at a position."""
    tmpl = T.expected_topology(resname, position)
    names = [a for a in tmpl.atoms if a not in ("N+1", "C-1")]
    if not hydrogens:
        names = [a for a in names if not a.startswith("H")]
    return tmpl, names


def build_peptide(seq, *, chain="A", start=1, hydrogens=False, oxt=True,
                  omit=None, icodes=None, numbers=None, origin=(0.0, 0.0, 0.0),
                  rotation=None, phi=None):
    """seq: list of input residue names (ALA, ASH, HID, CYX ...).
    omit: {res_index: set(atom names)} heavy atoms left out.
    Returns list of BAtom.  Hydrogens (if requested) follow the state's
    template (N-terminal H/H2/H3 included)."""
    omit = omit or {}
    aa, _na, patches, canonical = T.load()
    pep = patches["PEPTIDE"].atoms
    atoms = []
    prev = None  # (R, t) of previous residue
    n = len(seq)
    for i, resname in enumerate(seq):
        position = ("nc" if n == 1 else "n" if i == 0 else
                    "c" if i == n - 1 else "mid")
        tmpl, names = _template_for(resname, position, hydrogens)
        if not oxt and "OXT" in names:
            names.remove("OXT")
        tN, tCA, tC = (np.array(tmpl.atoms[k].xyz) for k in ("N", "CA", "C"))
        tCm1 = np.array(pep["C-1"].xyz)
        tNp1 = np.array(pep["N+1"].xyz)
        if prev is None:
            R, t = np.eye(3), np.zeros(3)
        else:
            Rp, tp = prev
            pCA, pC = Rp @ tCA + tp, Rp @ tC + tp
            pN = Rp @ tN + tp
            # N(i): along the previous residue's N+1 pseudo atom at the
            # template's own C-1..N distance
            d_cn = dist(tCm1, tN)
            u = (Rp @ tNp1 + tp) - pC
            nN = pC + d_cn * u / np.linalg.norm(u)
            nCA = nerf(pCA, pC, nN, dist(tN, tCA), angle(tCm1, tN, tCA), 180.0)
            ph = dihedral(tCm1, tN, tCA, tC) if phi is None else phi
            nC = nerf(pC, nN, nCA, dist(tCA, tC), angle(tN, tCA, tC), ph)
            R, t = kabsch([tN, tCA, tC], [nN, nCA, nC])
        for name in names:
            if name in omit.get(i, ()):
                continue
            xyz = R @ np.array(tmpl.atoms[name].xyz) + t
            atoms.append(BAtom(
                name=name, res_name=resname, chain=chain,
                res_seq=(numbers[i] if numbers else start + i),
                icode=(icodes[i] if icodes else ""), xyz=xyz, record="ATOM",
                res_idx=i))
        prev = (R, t)
    return transform(atoms, rotation, origin)


def transform(atoms, rotation=None, translation=(0, 0, 0)):
    R = np.eye(3) if rotation is None else np.asarray(rotation, float)
    t = np.asarray(translation, float)
    for a in atoms:
        a["xyz"] = R @ a["xyz"] + t
    return atoms


def water(xyz, res_seq, chain="W", name="O", res_name="HOH"):
    return BAtom(name=name, res_name=res_name, chain=chain, res_seq=res_seq,
                 icode="", xyz=np.asarray(xyz, float), record="HETATM",
                 res_idx=-1)


def strand_star_name(name):
    """Old-style spelling of nucleotide atom names (alternative names of the
    topology files): O5* for O5', C5M for the thymine methyl carbon."""
    if name == "C7":
        return "C5M"
    if name.startswith("H"):
        return name
    return name.replace("'", "*")


def strand_canonical_name(name):
    if name == "C5M":
        return "C7"
    if name in ("OP1", "OP2"):
        return {"OP1": "O1P", "OP2": "O2P"}[name]
    if not name.startswith("H"):
        return name.replace("*", "'")
    return name


def build_strand(seq, *, chain="N", start=1, naming="legacy", hydrogens=False,
                 origin=(0.0, 0.0, 0.0)):
    """seq: canonical nucleotide names (DA, DC, DG, DT, RA, RC, RG, RU).
    naming: 'legacy' (O1P/O2P), 'modern' (OP1/OP2), 'short' (A,C,G,U /
    DA.. as-is; RNA one-letter residue names), 'star' (O5*, C5M)."""
    _aa, na, patches, canonical = T.load()
    atoms = []
    shift = np.asarray(origin, float)
    prev_o3 = None
    for i, resname in enumerate(seq):
        tmpl = canonical[resname]
        names = [a for a in tmpl.atoms]
        if not hydrogens:
            names = [a for a in names if not a.startswith("H")]
        P = np.array(tmpl.atoms["P"].xyz)
        if prev_o3 is None:
            t = shift - P
        else:
            t = prev_o3 + np.array([1.6, 0.0, 0.0]) - P
        outname = resname
        if naming == "short" and resname[0] == "R":
            outname = resname[1]
        for name in names:
            out = name
            if naming == "modern":
                out = {"O1P": "OP1", "O2P": "OP2"}.get(name, name)
            elif naming == "star":
                out = strand_star_name(name)
            atoms.append(BAtom(
                name=out, res_name=outname, chain=chain, res_seq=start + i,
                icode="", xyz=np.array(tmpl.atoms[name].xyz) + t,
                record="ATOM", res_idx=i))
        prev_o3 = np.array(tmpl.atoms["O3'"].xyz) + t
    return atoms


def pdb_text(atoms, *, ter=True, end=True, header=True):
    """Write atoms (list of BAtom, in order) as a PDB file; TER after each
    polymer chain."""
    lines = []
    if header:
        lines.append("HEADER    VERIF BUILT STRUCTURE                   "
                     "01-JAN-00   XXXX")
    serial = 1
    prev = None
    for a in atoms:
        if (ter and prev is not None and prev["record"] == "ATOM"
                and (a["chain"] != prev["chain"] or a["record"] != "ATOM"
                     or a["res_idx"] < prev["res_idx"])):
            lines.append(ter_line(serial, prev["res_name"], prev["chain"],
                                  prev["res_seq"], prev["icode"]))
            serial += 1
        x, y, z = a["xyz"]
        lines.append(atom_line(serial, a["name"], a["res_name"], a["chain"],
                               a["res_seq"], x, y, z, record=a["record"],
                               icode=a["icode"], alt=a.get("alt", "")))
        serial += 1
        prev = a
    if ter and prev is not None and prev["record"] == "ATOM":
        lines.append(ter_line(serial, prev["res_name"], prev["chain"],
                              prev["res_seq"], prev["icode"]))
    if end:
        lines.append("END")
    return "\n".join(lines) + "\n"


def min_heavy_contact(a_atoms, b_atoms, skip=()):
    best = 1e9
    for a in a_atoms:
        if a["name"].startswith("H"):
            continue
        for b in b_atoms:
            if b["name"].startswith("H"):
                continue
            if (id(a), id(b)) in skip:
                continue
            d = dist(a["xyz"], b["xyz"])
            if d < best:
                best = d
    return best
