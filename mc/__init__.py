"""Bounded exhaustive model checking of the pdb2pqr implementation."""
