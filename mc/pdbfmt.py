"""Harness-side PDB line writer (wwPDB fixed columns)."""


def atom_line(
    serial,
    name,
    res_name,
    chain,
    res_seq,
    x,
    y,
    z,
    *,
    record="ATOM",
    alt="",
    icode="",
    occ=1.0,
    bfac=0.0,
    element=None,
):
    if element is None:
        element = next((c for c in name if c.isalpha()), "X")
    if len(name) < 4 and len(element) == 1:
        nm = " " + name.ljust(3)
    else:
        nm = name.ljust(4)
    return (
        f"{record:<6}{serial:>5} {nm}{alt or ' ':1}{res_name:>3} "
        f"{chain or ' ':1}{res_seq:>4}{icode or ' ':1}   "
        f"{x:8.3f}{y:8.3f}{z:8.3f}{occ:6.2f}{bfac:6.2f}          "
        f"{element:>2}  "
    )


def ter_line(serial, res_name, chain, res_seq, icode=""):
    return (
        f"TER   {serial:>5}      {res_name:>3} "
        f"{chain or ' ':1}{res_seq:>4}{icode or ' ':1}"
    )
