"""Reference resolution of force-field parameters: DAT rows + the documented
.names semantics (docs/source/formats/xml-names.rst), written independently of
pdb2pqr.forcefield (xml.etree instead of SAX, plain dicts).

Semantics (sections applied in file order, cumulatively):
  * <name> is a regular expression, anchored at both ends;
  * <useresname> X: every canonical residue name matching <name> receives
    (overlays) all atoms of force-field residue X; "$group" in X is replaced
    by the first parenthesised group of the match and names whose substituted
    X does not exist are skipped;
  * <atom><name>A</name><useatomname>B</useatomname>: in every residue of the
    force-field map whose name matches <name>, A becomes an alias for B if B
    exists there (aliases add entries, never remove);
  * a parameter is (charge, radius) of the DAT row the alias chain ends in,
    with that row's native residue and atom names.
"""

import functools
import re
import xml.etree.ElementTree as ET
from pathlib import Path

from ..engine import REPO
from . import templates

DAT = REPO / "pdb2pqr" / "dat"
FORCE_FIELDS = ["amber", "charmm", "parse", "tyl06", "peoepb", "swanson"]


def read_dat(path):
    """-> {residue: {atom: (charge, radius, residue, atom)}} (last row wins)."""
    table = {}
    for line in Path(path).read_text(encoding="utf-8").splitlines():
        if line.startswith("#"):
            continue
        f = line.split()
        if not f:
            continue
        res, atom, q, r = f[0], f[1], float(f[2]), float(f[3])
        table.setdefault(res, {})[atom] = (q, r, res, atom)
    return table


def _fullmatch(regex, name):
    return re.compile(regex + "$").match(name)


def read_names(path):
    """-> list of sections (regex, useresname or None, [(new, old), ...])."""
    sections = []
    root = ET.parse(path).getroot()
    for r in root.findall("residue"):
        regex = (r.findtext("name") or "").strip()
        use = r.findtext("useresname")
        use = use.strip() if use is not None else None
        atoms = []
        for a in r.findall("atom"):
            atoms.append(((a.findtext("name") or "").strip(),
                          (a.findtext("useatomname") or "").strip()))
        sections.append((regex, use, atoms))
    return sections


def resolve(dat_path, names_path, canonical_names):
    table = {res: dict(atoms) for res, atoms in read_dat(dat_path).items()}
    for regex, use, atoms in read_names(names_path):
        if use is not None:
            for cname in canonical_names:
                m = _fullmatch(regex, cname)
                if not m:
                    continue
                if "$group" in use:
                    src = use.replace("$group", m.group(1))
                    if src not in table:
                        continue
                else:
                    src = use
                table.setdefault(cname, {})
                # overlay: atoms of src overwrite / extend those present
                for a, v in list(table[src].items()):
                    table[cname][a] = v
        if atoms:
            # aliases of one section: last <atom> with a given <name> wins,
            # applied in order of first appearance
            amap = {}
            for new, old in atoms:
                amap[new] = old
            for res in list(table):
                if not _fullmatch(regex, res):
                    continue
                for new, old in amap.items():
                    if old in table[res]:
                        table[res][new] = table[res][old]
    return table


@functools.lru_cache(maxsize=None)
def builtin(ff):
    _aa, _na, _p, canonical = templates.load()
    return resolve(DAT / f"{ff.upper()}.DAT", DAT / f"{ff.upper()}.names",
                   list(canonical))


def params(ff, resname, atom):
    """(charge, radius) or None for a built-in force field."""
    e = builtin(ff).get(resname, {}).get(atom)
    return None if e is None else (e[0], e[1])
