"""Reference PQR readers: fixed columns (PDB-compatible layout that pdb2pqr
documents it preserves) and whitespace tokens (docs/source/formats/pqr.rst:
Field_name Atom_number Atom_name Residue_name [Chain_ID] Residue_number X Y Z
Charge Radius)."""


def parse_fixed_line(line):
    line = line.rstrip("\r\n")
    return {
        "record": line[0:6].strip(),
        "serial": int(line[6:11]),
        "name": line[12:16].strip(),
        "res_name": line[16:20].strip(),
        "chain": line[21:22].strip(),
        "res_seq": int(line[22:26]),
        "icode": line[26:27].strip(),
        "x": float(line[30:38]),
        "y": float(line[38:46]),
        "z": float(line[46:54]),
        "charge": float(line[54:62]),
        "radius": float(line[62:69]),
        "xs": line[30:38], "ys": line[38:46], "zs": line[46:54],
        "qs": line[54:62], "rs": line[62:69],
    }


def parse_ws_line(line, keep_chain):
    """Whitespace tokenisation per the documented field list: the record ends
    with five numeric fields; between the residue name and them stand an
    optional chain id (only with keep_chain, and only if the atom has one),
    the residue number and an optional insertion code."""
    w = line.split()
    rec = {"record": w[0], "serial": int(w[1]), "name": w[2],
           "res_name": w[3]}
    head, rest = w[4:-5], w[-5:]
    if len(w) < 10 or not 1 <= len(head) <= 3:
        raise ValueError(f"expected [chain] number [icode] + 5 numeric "
                         f"fields, got {w[4:]!r}")

    def is_int(t):
        try:
            int(t)
            return True
        except ValueError:
            return False

    if len(head) == 3:
        rec["chain"], seq, rec["icode"] = head
    elif len(head) == 2 and keep_chain and is_int(head[1]):
        rec["chain"], seq, rec["icode"] = head[0], head[1], ""
    elif len(head) == 2:
        rec["chain"], seq, rec["icode"] = "", head[0], head[1]
    else:
        rec["chain"], seq, rec["icode"] = "", head[0], ""
    rec["res_seq"] = int(seq)
    rec["xs"], rec["ys"], rec["zs"], rec["qs"], rec["rs"] = rest
    rec["x"], rec["y"], rec["z"] = (float(v) for v in rest[:3])
    rec["charge"], rec["radius"] = float(rest[3]), float(rest[4])
    return rec


def parse(text, *, whitespace=False, keep_chain=True):
    atoms = []
    for line in text.splitlines():
        if line.startswith(("ATOM", "HETATM")):
            if whitespace:
                atoms.append(parse_ws_line(line, keep_chain))
            else:
                atoms.append(parse_fixed_line(line))
    return atoms
