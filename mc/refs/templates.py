"""Independent reading of pdb2pqr's topology data (AA.xml, NA.xml, PATCHES.xml)
with xml.etree (the implementation uses SAX handlers) and the documented patch
semantics: expected atom sets, bond graphs and template coordinates for a
residue in a given protonation / terminal state.
"""

import copy
import functools
import re
import xml.etree.ElementTree as ET
from pathlib import Path

from ..engine import REPO

DAT = REPO / "pdb2pqr" / "dat"


class TAtom:
    __slots__ = ("name", "xyz", "bonds")

    def __init__(self, name, xyz, bonds):
        self.name = name
        self.xyz = xyz
        self.bonds = list(bonds)

    def __repr__(self):
        return f"TAtom({self.name},{self.xyz},{self.bonds})"


class TResidue:
    def __init__(self, name):
        self.name = name
        self.atoms = {}  # name -> TAtom (ordered)
        self.altnames = {}
        self.dihedrals = []

    def copy(self):
        return copy.deepcopy(self)

    def heavy(self):
        return [a for a in self.atoms if not a.startswith("H")
                and a not in ("N+1", "C-1")]


class TPatch:
    def __init__(self, name):
        self.name = name
        self.applyto = ""
        self.newname = ""
        self.atoms = {}
        self.altnames = {}
        self.remove = []
        self.dihedrals = []


def _atom(el):
    name = el.findtext("name").strip()
    xyz = tuple(float((el.findtext(k) or "0").strip()) for k in "xyz")
    bonds = [b.text.strip() for b in el.findall("bond")]
    alts = [a.text.strip() for a in el.findall("altname")]
    return TAtom(name, xyz, bonds), alts


def _read_residues(path):
    out = {}
    for r in ET.parse(path).getroot().findall("residue"):
        res = TResidue(r.findtext("name").strip())
        for a in r.findall("atom"):
            atom, alts = _atom(a)
            res.atoms[atom.name] = atom
            for alt in alts:
                res.altnames[alt] = atom.name
        res.dihedrals = [d.text.strip() for d in r.findall("dihedral")]
        out[res.name] = res
    return out


def _read_patches(path):
    out = []
    for p in ET.parse(path).getroot().findall("patch"):
        patch = TPatch(p.findtext("name").strip())
        patch.applyto = (p.findtext("applyto") or "").strip()
        patch.newname = (p.findtext("newname") or "").strip()
        for add in p.findall("add"):
            for a in add.findall("atom"):
                atom, alts = _atom(a)
                patch.atoms[atom.name] = atom
                for alt in alts:
                    patch.altnames[alt] = atom.name
            patch.dihedrals += [d.text.strip() for d in add.findall("dihedral")]
        patch.remove = [r.text.strip() for r in p.findall("remove")]
        out.append(patch)
    return out


def apply_patch(res, patch, newname=None):
    """Documented patch semantics: add atoms (and back-bonds), remove atoms
    (and their bonds), add alternate names and dihedrals."""
    res = res.copy()
    if newname:
        res.name = newname
    for name, atom in patch.atoms.items():
        res.atoms[name] = copy.deepcopy(atom)
        for b in atom.bonds:
            if b in res.atoms and name not in res.atoms[b].bonds:
                res.atoms[b].bonds.append(name)
    res.altnames.update(patch.altnames)
    for rem in patch.remove:
        if rem in res.atoms:
            del res.atoms[rem]
            for a in res.atoms.values():
                if rem in a.bonds:
                    a.bonds.remove(rem)
    res.dihedrals = res.dihedrals + patch.dihedrals
    return res


@functools.lru_cache(maxsize=None)
def load():
    """Return (residues, patches, canonical) where canonical maps every
    canonical residue name (base, N*/C*/NEUTRAL-N*/NEUTRAL-C*, protonation and
    nucleic variants) to its patched template."""
    aa = _read_residues(DAT / "AA.xml")
    na = _read_residues(DAT / "NA.xml")
    patches = _read_patches(DAT / "PATCHES.xml")
    canonical = {}
    canonical.update(aa)
    canonical.update(na)
    for patch in patches:
        if patch.newname:
            for name in list(canonical):
                if re.compile(patch.applyto).match(name):
                    nn = patch.newname.replace("*", name)
                    canonical[nn] = apply_patch(canonical[name], patch, nn)
        if patch.applyto in canonical:
            canonical[patch.name] = apply_patch(
                canonical[patch.applyto], patch, patch.name
            )
    return aa, na, {p.name: p for p in patches}, canonical


AMINO = ["ALA", "ARG", "ASN", "ASP", "CYS", "GLN", "GLU", "GLY", "HIS", "ILE",
         "LEU", "LYS", "MET", "PHE", "PRO", "SER", "THR", "TRP", "TYR", "VAL"]

# input residue names that select a protonation state (PATCHES.xml names)
STATE_NAMES = {
    "ASP": ["ASP", "ASH"], "GLU": ["GLU", "GLH"],
    "HIS": ["HIS", "HID", "HIE", "HIP", "HSD", "HSE", "HSP"],
    "CYS": ["CYS", "CYM", "CYX"], "LYS": ["LYS", "LYN"],
    "TYR": ["TYR", "TYM"], "ARG": ["ARG", "AR0"],
}


def base_of(resname):
    for base, names in STATE_NAMES.items():
        if resname in names:
            return base
    return resname


def expected_topology(state, position, *, neutraln=False, neutralc=False):
    """Template of a residue in side-chain `state` (a canonical 3-letter state
    name such as ASP, ASH, HID, CYX, LYN ...) at chain position
    'n' | 'mid' | 'c' | 'nc' (single-residue chain)."""
    _aa, _na, patches, canonical = load()
    res = canonical[state].copy()
    if position in ("n", "nc"):
        res = apply_patch(
            res, patches["NEUTRAL-NTERM" if neutraln else "NTERM"])
    if position in ("c", "nc"):
        res = apply_patch(
            res, patches["NEUTRAL-CTERM" if neutralc else "CTERM"])
    if position == "mid":
        res = apply_patch(res, patches["PEPTIDE"])
    return res


def real_atoms(res):
    """Atom names of a template that are real atoms (no N+1/C-1 pseudo)."""
    return [a for a in res.atoms if a not in ("N+1", "C-1")]
