"""Reference PDB coordinate reader: pure column slicing per the wwPDB format.

Independent of pdb2pqr.pdb.  Defines only what the property talks about: the
ATOM/HETATM records of the first model, first listed alternate location per
(chain, resSeq, iCode, atom name) identity.
"""


def parse_atom_line(line):
    """Column-slice one ATOM/HETATM line -> dict, or None if the coordinate
    columns are not all present/parsable."""
    line = line.rstrip("\r\n")
    try:
        rec = {
            "record": line[0:6].strip(),
            "serial": line[6:11].strip(),
            "name": line[12:16].strip(),
            "alt": line[16:17].strip(),
            "res_name": line[17:20].strip(),
            "chain": line[21:22].strip(),
            "res_seq": int(line[22:26]),
            "icode": line[26:27].strip(),
            "x": float(line[30:38]),
            "y": float(line[38:46]),
            "z": float(line[46:54]),
        }
    except ValueError:
        return None
    return rec


def first_model_atoms(text):
    """Return (atoms, unparsable) for the first model of a PDB text.

    The first model ends at the first ENDMDL record, or at a MODEL record that
    follows coordinate records (both conventions agree on the files the
    harness generates).
    """
    atoms = []
    seen = set()
    bad = []
    have_coord = False
    n_ter = 0
    for raw in text.splitlines():
        rec = raw[0:6].strip()
        if rec == "TER":
            n_ter += 1
        if rec == "ENDMDL" and have_coord:
            break
        if rec == "MODEL" and have_coord:
            break
        if rec in ("ATOM", "HETATM"):
            have_coord = True
            a = parse_atom_line(raw)
            if a is None:
                bad.append(raw)
                continue
            # chains without an identifier are delimited by TER records
            a["segment"] = n_ter if a["chain"] == "" else None
            ident = (a["chain"], a["segment"], a["res_seq"], a["icode"],
                     a["name"])
            if ident in seen:
                continue
            seen.add(ident)
            atoms.append(a)
    return atoms, bad


WATER_NAMES = ("HOH", "WAT")
