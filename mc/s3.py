"""Shared structure/environment corpus "S3" (used by C03, C04, C05, C14.3).

A case is a host tripeptide with residue X at a chain position, an option set,
a force field and an *environment* with 0, 1 or 2 deviations from the bare
case: clash probes (a water oxygen 0.5 A beyond a hydrogen that will be
added), water probes on a 14-direction lattice around polar atoms, rigid
partner tripeptides posed on the (direction x cube-rotation) lattice, omitted
heavy atoms.  All enumerations are complete inside their block.
"""

import numpy as np

from . import build, corpus
from .refs import templates as T

OPTION_SETS = {
    "default": [],
    "nodebump": ["--nodebump"],
    "noopt": ["--noopt"],
    "nodebump_noopt": ["--nodebump", "--noopt"],
    "assign_only": ["--assign-only"],
    "clean": ["--clean"],
    "drop_water": ["--drop-water"],
    # the pKa path (hydrogens stripped and rebuilt between the two debumping
    # passes) with debumping / optimisation switched off
    "nodebump_noopt_pka": ["--nodebump", "--noopt",
                           "--titration-state-method=propka", "--with-ph=7"],
    "nodebump_pka": ["--nodebump", "--titration-state-method=propka",
                     "--with-ph=7"],
    # PARSE only
    "neutraln": ["--neutraln"],
    "neutralc": ["--neutralc"],
    "neutral_both": ["--neutraln", "--neutralc"],
}
NEUTRAL_SETS = ("neutraln", "neutralc", "neutral_both")

POLAR = {
    "SER": ["OG"], "THR": ["OG1"], "TYR": ["OH"], "HIS": ["ND1", "NE2"],
    "ASN": ["OD1", "ND2"], "GLN": ["OE1", "NE2"], "ASP": ["OD1", "OD2"],
    "GLU": ["OE1", "OE2"], "LYS": ["NZ"], "ARG": ["NE", "NH1", "NH2"],
    "CYS": ["SG"], "TRP": ["NE1"], "MET": ["SD"],
}
PARTNERS = ["ALA", "SER", "THR", "TYR", "CYS", "ASN", "GLN", "HIS", "ASP",
            "GLU", "ASH", "GLH", "LYS", "ARG", "TRP"]
PARTNER_ATOMS = {
    "ALA": ["O", "N"], "SER": ["OG"], "THR": ["OG1"], "TYR": ["OH"],
    "CYS": ["SG"], "ASN": ["OD1", "ND2"], "GLN": ["OE1", "NE2"],
    "HIS": ["ND1", "NE2"], "ASP": ["OD1"], "GLU": ["OE1"], "ASH": ["OD2"],
    "GLH": ["OE2"], "LYS": ["NZ"], "ARG": ["NH1"], "TRP": ["NE1"],
}


def polar_targets(x, pos):
    base = T.base_of(x)
    t = list(POLAR.get(base, []))
    if pos == "n":
        t.append("N")
    elif pos == "c":
        t += ["O", "OXT"]
    else:
        t += ["O"]
    return t


def host(desc):
    """Build host atoms (heavy only unless desc['hydrogens'])."""
    atoms, info = corpus.build_host({
        "x": desc["x"], "pos": desc["pos"],
        "waters": desc.get("waters", []),
        "water_h": desc.get("water_h"),
        "hydrogens": desc.get("hydrogens", False),
        "omit": {int(k): set(v) for k, v in desc.get("omit", {}).items()},
    })
    if desc.get("asym"):
        # carboxyl group with one C-O bond 0.08 A longer than the other
        ti = _target_idx(desc["pos"])
        base = T.base_of(desc["x"])
        far, near = {"ASP": (("OD2", "OD1"), "CG"),
                     "GLU": (("OE2", "OE1"), "CD")}[base]
        o = _find(atoms, ti, far[0] if desc["asym"] == 2 else far[1])
        c = _find(atoms, ti, near)
        u = o["xyz"] - c["xyz"]
        o["xyz"] = o["xyz"] + 0.08 * u / np.linalg.norm(u)
    return atoms, info


def host_with_h(x, pos):
    atoms, _ = corpus.build_host({"x": x, "pos": pos, "hydrogens": True})
    return atoms


def _target_idx(pos):
    return {"n": 0, "mid": 1, "c": 2}[pos]


def _find(atoms, res_idx, name):
    for a in atoms:
        if a["res_idx"] == res_idx and a["name"] == name:
            return a
    return None


def env_atoms(desc, host_atoms):
    """Environment atoms for the deviations listed in desc['env'];
    returns (extra_atoms, extra_info) or None if the pose is rejected
    (steric overlap with the host)."""
    extra, info = [], []
    ti = _target_idx(desc["pos"])
    hfull = None
    wnum = 200
    for dev in desc.get("env", []):
        kind = dev[0]
        if kind == "clash":
            if hfull is None:
                hfull = host_with_h(desc["x"], desc["pos"])
            h = _find(hfull, ti, dev[1])
            tmpl = T.expected_topology(desc["x"], {"n": "n", "mid": "mid",
                                                   "c": "c"}[desc["pos"]])
            parent = _find(hfull, ti, tmpl.atoms[dev[1]].bonds[0])
            u = h["xyz"] - parent["xyz"]
            xyz = h["xyz"] + 0.5 * u / np.linalg.norm(u)
            extra.append(build.water(xyz, wnum))
            info.append({"kind": "wat", "input": "HOH", "position": None,
                         "chain": "W", "res_seq": wnum})
            wnum += 1
        elif kind == "clashheavy":
            # water oxygen 1.0 A beyond the template position of a heavy atom
            # that is omitted from the input and will be rebuilt
            if hfull is None:
                hfull = host_with_h(desc["x"], desc["pos"])
            a = _find(hfull, ti, dev[1])
            tmpl = T.expected_topology(desc["x"], desc["pos"])
            parent = _find(hfull, ti, tmpl.atoms[dev[1]].bonds[0])
            u = a["xyz"] - parent["xyz"]
            xyz = a["xyz"] + 1.0 * u / np.linalg.norm(u)
            extra.append(build.water(xyz, wnum))
            info.append({"kind": "wat", "input": "HOH", "position": None,
                         "chain": "W", "res_seq": wnum})
            wnum += 1
        elif kind == "water":
            _k, tname, di, d = dev[:4]
            t = _find(host_atoms, ti, tname)
            if t is None:
                return None
            xyz = t["xyz"] + d * build.DIRECTIONS14[di]
            w = build.water(xyz, wnum)
            # reject if the water sits inside the host
            for a in host_atoms:
                if a is t or a["name"].startswith("H"):
                    continue
                if build.dist(a["xyz"], xyz) < 2.4:
                    return None
            for e in extra:
                if build.dist(e["xyz"], xyz) < 2.4:
                    return None
            extra.append(w)
            if len(dev) > 4:
                # the water comes with both hydrogens: "away" turns its
                # hydrogens away from the target (the lone pairs face it:
                # an acceptor), "toward" points a hydrogen bisector at it;
                # the last element spins the water about that axis
                _k, tname, di, d, facing, spin = dev
                wat = T.load()[0]["WAT"]
                o = np.array(wat.atoms["O"].xyz)
                h = [np.array(wat.atoms[n].xyz) - o for n in ("H1", "H2")]
                bis = (h[0] + h[1]) / np.linalg.norm(h[0] + h[1])
                if facing in ("lp+", "lp-"):
                    # one lone-pair direction (tetrahedral complement of the
                    # two O-H bonds) along +/- the approach direction
                    nrm = np.cross(h[0], h[1])
                    nrm = nrm / np.linalg.norm(nrm)
                    ref = -bis * np.cos(np.radians(54.75)) \
                        + nrm * np.sin(np.radians(54.75))
                    axis = build.DIRECTIONS14[di] * (1.0 if facing == "lp+"
                                                     else -1.0)
                else:
                    ref = bis
                    axis = build.DIRECTIONS14[di] * (1.0 if facing == "away"
                                                     else -1.0)
                R = _spin(axis, spin) @ _align(ref, axis)
                for hn, hv in zip(("H1", "H2"), h):
                    extra.append(build.water(xyz + R @ hv, wnum, name=hn))
            info.append({"kind": "wat", "input": "HOH", "position": None,
                         "chain": "W", "res_seq": wnum})
            wnum += 1
        elif kind == "waterpair":
            # two waters far from the host, 2.8 A apart along a lattice
            # direction; the first carries both hydrogens on two cube
            # diagonals, so that its lone pairs lie on two others: the 14
            # directions put the second water on a hydrogen (donor), on a
            # lone pair (acceptor) and in between
            _k, di, mode = dev
            base = np.array([30.0, 30.0, 30.0])
            hv = [np.array(v, float) / np.sqrt(3.0) * 0.9572
                  for v in ((1, 1, 1), (1, -1, -1))]
            for k, (pos_, with_h) in enumerate((
                    (base, True),
                    (base + 2.8 * build.DIRECTIONS14[di], mode == "ab"))):
                extra.append(build.water(pos_, wnum))
                if with_h:
                    for hn, v in zip(("H1", "H2"), hv):
                        extra.append(build.water(pos_ + v, wnum, name=hn))
                info.append({"kind": "wat", "input": "HOH", "position": None,
                             "chain": "W", "res_seq": wnum})
                wnum += 1
        elif kind == "idealwater":
            # water oxygen on a tetrahedral slot of the host's polar atom
            _k, tname, phi, slot, d = dev
            t = _find(host_atoms, ti, tname)
            if t is None:
                return None
            tmpl = T.expected_topology(desc["x"], desc["pos"])
            par = next(b for b in tmpl.atoms[tname].bonds
                       if not b.startswith("H"))
            gpar = next(b for b in tmpl.atoms[par].bonds
                        if not b.startswith("H") and b != tname)
            xyz = build.nerf(_find(host_atoms, ti, gpar)["xyz"],
                             _find(host_atoms, ti, par)["xyz"],
                             t["xyz"], d, 109.5, phi + 120.0 * slot)
            for a in list(host_atoms) + extra:
                if a is t or a["name"].startswith("H"):
                    continue
                if build.dist(a["xyz"], xyz) < 2.4:
                    return None
            extra.append(build.water(xyz, wnum))
            info.append({"kind": "wat", "input": "HOH", "position": None,
                         "chain": "W", "res_seq": wnum})
            wnum += 1
        elif kind in ("partner", "ideal"):
            if kind == "ideal":
                # partner atom on a tetrahedral slot of the host's polar atom:
                # distance d, 109.5 degrees to the parent bond, torsion
                # phi + 120 * slot about it; the first contact-free cube
                # rotation of the partner is used
                _k, P, patom, tname, phi, slot, d = dev
                ri_list = range(24)
            else:
                _k, P, patom, tname, di, d, ri = dev
                ri_list = [ri]
            t = _find(host_atoms, ti, tname)
            if t is None:
                return None
            if kind == "ideal":
                tmpl = T.expected_topology(desc["x"], desc["pos"])
                par = next(b for b in tmpl.atoms[tname].bonds
                           if not b.startswith("H"))
                gpar = next(b for b in tmpl.atoms[par].bonds
                            if not b.startswith("H") and b != tname)
                target = build.nerf(_find(host_atoms, ti, gpar)["xyz"],
                                    _find(host_atoms, ti, par)["xyz"],
                                    t["xyz"], d, 109.5, phi + 120.0 * slot)
            else:
                target = t["xyz"] + d * build.DIRECTIONS14[di]
            k = sum(1 for i_ in info if i_.get("partner_centre"))
            pchain, pstart = "BCDE"[k], 51 + 10 * k
            placed = None
            rotations = [build.CUBE_ROTATIONS[ri] for ri in ri_list]
            if kind == "ideal":
                # a donor points one of its hydrogens at the host atom (the
                # hydrogens are rebuilt by the program at their template
                # positions); the spin about that line is the first
                # contact-free one on a 30-degree lattice
                full = build.build_peptide(["ALA", P, "ALA"], hydrogens=True)
                ptm = T.expected_topology(P, "mid")
                hname = next((b for b in ptm.atoms[patom].bonds
                              if b.startswith("H")), None)
                if hname is not None:
                    u = (_find(full, 1, hname)["xyz"]
                         - _find(full, 1, patom)["xyz"])
                    v = t["xyz"] - target
                    A = _align(u, v)
                    rotations = [_spin(v, psi) @ A
                                 for psi in range(0, 360, 30)]
            for R in rotations:
                # ideal partners carry their hydrogens in the file, so that
                # the donor hydrogen is where the pose puts it
                part = build.build_peptide(["ALA", P, "ALA"], chain=pchain,
                                           start=pstart,
                                           hydrogens=(kind == "ideal"))
                p = _find(part, 1, patom)
                p0 = p["xyz"].copy()
                for a in part:
                    a["xyz"] = R @ (a["xyz"] - p0) + target
                bad = False
                # reject poses with any other heavy contact below 2.5 A
                for a in host_atoms:
                    if a["name"].startswith("H"):
                        continue
                    for b in part:
                        if (a is t and b is p) or b["name"].startswith("H"):
                            continue
                        if build.dist(a["xyz"], b["xyz"]) < 2.5:
                            bad = True
                            break
                    if bad:
                        break
                if not bad:
                    for a in extra:  # earlier partners / probes
                        if a["name"].startswith("H"):
                            continue
                        for b in part:
                            if b["name"].startswith("H"):
                                continue
                            if build.dist(a["xyz"], b["xyz"]) < 2.5:
                                bad = True
                                break
                        if bad:
                            break
                if not bad:
                    placed = part
                    break
            if placed is None:
                return None
            extra += placed
            for i, name in enumerate(["ALA", P, "ALA"]):
                info.append({"kind": "aa", "input": name,
                             "position": ("n", "mid", "c")[i], "chain": pchain,
                             "res_seq": pstart + i, "target": False,
                             "partner_centre": i == 1})
        elif kind in ("omit", "alias", "altloc"):
            pass  # handled in host() / build_case()
        elif kind == "extra":
            # an atom the topology does not know, 1.5 A from CA of residue X
            ca = _find(host_atoms, ti, "CA")
            e = build.BAtom(ca)
            e["name"] = dev[1]
            e["xyz"] = ca["xyz"] + np.array([0.9, 0.9, 0.8])
            e["_after"] = ti
            extra.append(e)
        else:
            raise ValueError(kind)
    return extra, info


def build_case(desc):
    """-> (text, info, input_atoms) or None if the environment pose is
    rejected."""
    if "window" in desc:
        return build_window(desc)
    if "hood" in desc:
        return build_hood(desc)
    if "gap" in desc:
        return build_gap(desc)
    d = dict(desc)
    omit = {}
    for dev in desc.get("env", []):
        if dev[0] == "omit":
            omit.setdefault(str(_target_idx(desc["pos"])), []).extend(dev[1])
    if omit:
        d["omit"] = omit
    atoms, info = host(d)
    if omit and any(not n.startswith("H") for v in omit.values() for n in v):
        # ballast chain: keeps the missing fraction below REPAIR_LIMIT (0.1)
        # so that the repair path, not the refusal path, is exercised
        nb = 20
        ballast = build.build_peptide(["ALA"] * nb, chain="Z", start=301,
                                      origin=(0.0, 40.0, 0.0))
        atoms = atoms + ballast
        for i in range(nb):
            info.append({"kind": "aa", "input": "ALA",
                         "position": "n" if i == 0 else "c" if i == nb - 1
                         else "mid", "chain": "Z", "res_seq": 301 + i,
                         "target": False})
    env = env_atoms(desc, atoms)
    if env is None:
        return None
    extra, einfo = env
    inside = [e for e in extra if "_after" in e]
    extra = [e for e in extra if "_after" not in e]
    for e in inside:  # keep the records of a residue contiguous
        idx = max(i for i, a in enumerate(atoms)
                  if a["res_idx"] == e["_after"] and a["chain"] == e["chain"])
        atoms.insert(idx + 1, e)
    atoms = atoms + extra
    if desc.get("shift"):
        # the whole structure far from the origin: coordinates that fill
        # their eight columns (sign / leading digit in the first one)
        sh = np.asarray(desc["shift"], float)
        for a in atoms:
            a["xyz"] = a["xyz"] + sh
    for dev in desc.get("env", []):
        if dev[0] != "altloc":
            continue
        # the side chain of the target residue in two alternate locations
        # with the given labels; the first listed one is the structure
        _k, first, second = dev
        ti = _target_idx(desc["pos"])
        filed = []
        for a in atoms:
            if a["res_idx"] == ti and a["chain"] == "A" and \
                    a["name"] not in ("N", "CA", "C", "O", "OXT") and \
                    not a["name"].startswith("H"):
                one = build.BAtom(a)
                one["alt"] = first
                two = build.BAtom(a)
                two["alt"] = second
                two["xyz"] = a["xyz"] + np.array([0.4, -0.3, 0.5])
                filed += [one, two]
            else:
                filed.append(a)
        return build.pdb_text(filed), info + einfo, atoms
    alias = {dev[1]: dev[2] for dev in desc.get("env", [])
             if dev[0] == "alias"}
    if alias:
        # the file uses the alternative names; the harness keeps the
        # canonical ones (the program renames on reading)
        ti = _target_idx(desc["pos"])
        filed = []
        for a in atoms:
            if a["res_idx"] == ti and a["chain"] == "A" \
                    and a["name"] in alias:
                a = build.BAtom(a)
                a["name"] = alias[a["name"]]
            filed.append(a)
        return build.pdb_text(filed), info + einfo, atoms
    if desc.get("h_order") == "parent":
        atoms = _parent_order(atoms)
    return build.pdb_text(atoms), info + einfo, atoms


def _parent_order(atoms):
    """The same records with every hydrogen listed directly after the heavy
    atom it is attached to (the order AMBER / GROMACS / CHARMM write)."""
    out, i = [], 0
    while i < len(atoms):
        j = i
        while j < len(atoms) and atoms[j]["res_idx"] == atoms[i]["res_idx"] \
                and atoms[j]["chain"] == atoms[i]["chain"] \
                and atoms[j]["res_seq"] == atoms[i]["res_seq"]:
            j += 1
        group = atoms[i:j]
        heavy = [a for a in group if not a["name"].startswith("H")]
        hyd = [a for a in group if a["name"].startswith("H")]
        if heavy:
            for a in heavy:
                out.append(a)
                out += [h for h in hyd if min(
                    heavy, key=lambda q: build.dist(q["xyz"], h["xyz"])) is a]
        else:
            out += group
        i = j
    return out


# ---------------------------------------------------------------------------
# enumerators (each block is complete)
# ---------------------------------------------------------------------------
def _align(u, v):
    """Rotation matrix taking direction u to direction v."""
    u = np.asarray(u, float) / np.linalg.norm(u)
    v = np.asarray(v, float) / np.linalg.norm(v)
    c = float(u @ v)
    if c > 1 - 1e-12:
        return np.eye(3)
    if c < -1 + 1e-12:
        w = np.cross(u, [1.0, 0.0, 0.0])
        if np.linalg.norm(w) < 1e-6:
            w = np.cross(u, [0.0, 1.0, 0.0])
        return _spin(w, 180.0)
    w = np.cross(u, v)
    K = np.array([[0, -w[2], w[1]], [w[2], 0, -w[0]], [-w[1], w[0], 0]])
    return np.eye(3) + K + K @ K / (1.0 + c)


def _spin(axis, deg):
    a = np.asarray(axis, float) / np.linalg.norm(axis)
    th = np.radians(deg)
    K = np.array([[0, -a[2], a[1]], [a[2], 0, -a[0]], [-a[1], a[0], 0]])
    return np.eye(3) + np.sin(th) * K + (1 - np.cos(th)) * (K @ K)


def hydrogens_of(x, pos):
    tmpl = T.expected_topology(x, pos)
    return [a for a in tmpl.atoms if a.startswith("H")]


def sidechain_heavy(x, pos):
    tmpl = T.expected_topology(x, pos)
    return [a for a in tmpl.atoms if not a.startswith("H")
            and a not in ("N", "CA", "C", "O", "OXT", "N+1", "C-1")]


def suffixes(x, pos):
    """Truncated side chains: for each side-chain heavy atom, the set of
    heavy atoms at or beyond it (farther from CA in the bond graph)."""
    tmpl = T.expected_topology(x, pos)
    heavy = sidechain_heavy(x, pos)
    # BFS distance from CA
    distmap = {"CA": 0}
    frontier = ["CA"]
    while frontier:
        nxt = []
        for a in frontier:
            for b in tmpl.atoms[a].bonds:
                if b in tmpl.atoms and b not in distmap:
                    distmap[b] = distmap[a] + 1
                    nxt.append(b)
        frontier = nxt
    out = []
    for a in heavy:
        beyond = sorted(h for h in heavy if distmap.get(h, 0) >= distmap.get(a, 0)
                        and h != a)
        s = sorted(set([a] + [b for b in beyond
                              if distmap[b] > distmap[a]]))
        if s not in out:
            out.append(s)
    return out


def bare_cases(ffs, optsets, names=None):
    out = []
    for ff in ffs:
        for opt in optsets:
            for x in (names or corpus.INPUT_NAMES):
                for pos in corpus.POSITIONS:
                    d = {"x": x, "pos": pos, "ff": ff, "opt": opt, "env": []}
                    if opt == "assign_only":
                        d["hydrogens"] = True
                    out.append(d)
    return out


def clash_cases(ff, names=None):
    out = []
    for x in (names or corpus.INPUT_NAMES):
        for pos in corpus.POSITIONS:
            for h in hydrogens_of(x, pos):
                out.append({"x": x, "pos": pos, "ff": ff, "opt": "default",
                            "env": [["clash", h]]})
    return out


def omit_cases(ff, names=None):
    out = []
    for x in (names or T.AMINO):
        for pos in corpus.POSITIONS:
            seen = []
            for a in sidechain_heavy(x, pos):
                seen.append([a])
            for s in suffixes(x, pos):
                if s not in seen:
                    seen.append(s)
            if pos == "c":
                seen.append(["O"])
            for s in seen:
                out.append({"x": x, "pos": pos, "ff": ff, "opt": "default",
                            "env": [["omit", s]]})
    return out


def water_cases(ff, dists=(2.8,), names=None, opt="default"):
    out = []
    for x in (names or corpus.INPUT_NAMES):
        for pos in corpus.POSITIONS:
            for t in polar_targets(x, pos):
                for di in range(14):
                    for d in dists:
                        out.append({"x": x, "pos": pos, "ff": ff, "opt": opt,
                                    "env": [["water", t, di, d]]})
    return out


def water_with_h_cases(ff, names=None, opts=("default",)):
    """Water probes that carry both hydrogens in the input, facing the
    target with their lone pairs (acceptor) or with their hydrogens (donor),
    in two spins about the approach axis."""
    out = []
    for x in (names or ["SER", "THR", "TYR", "LYS", "ARG", "HIS", "ASN",
                        "ASP", "TRP", "ALA"]):
        for pos in corpus.POSITIONS:
            for t in polar_targets(x, pos):
                for di in range(14):
                    for facing in ("away", "toward", "lp-"):
                        for spin in (0.0, 90.0):
                            for opt in opts:
                                out.append({"x": x, "pos": pos, "ff": ff,
                                            "opt": opt,
                                            "env": [["water", t, di, 2.8,
                                                     facing, spin]]})
    return out


def water_pair_cases(ff, names=("ALA", "SER"), opts=("default", "noopt")):
    """An isolated pair of waters, the first (or both) with hydrogens in the
    input (see env kind "waterpair")."""
    out = []
    for x in names:
        for di in range(14):
            for mode in ("a", "ab"):
                for opt in opts:
                    out.append({"x": x, "pos": "mid", "ff": ff, "opt": opt,
                                "env": [["waterpair", di, mode]]})
    return out


def water_chain_cases(ff, names=None, opts=("default",)):
    """Two waters in a row beyond a polar atom (target..W1..W2, 2.8 A apart);
    one of them carries both hydrogens in the input, turned toward or away
    from the target: hydrogen-less waters donate to / accept from a water
    whose hydrogens are given."""
    out = []
    for x in (names or ["SER", "LYS", "ASP", "HIS", "ASN", "ALA"]):
        for pos in ("mid",):
            for t in polar_targets(x, pos):
                for di in range(14):
                    for which in (0, 1):
                        for facing in ("away", "toward", "lp+", "lp-"):
                            for spin in (0.0, 90.0):
                                env = [["water", t, di, 2.8],
                                       ["water", t, di, 5.6]]
                                env[which] = env[which] + [facing, spin]
                                for opt in opts:
                                    out.append({"x": x, "pos": pos, "ff": ff,
                                                "opt": opt, "env": env})
    return out


def partner_cases(ff, partners, hosts=None, positions=("mid",), dists=(2.8,),
                  dirs=range(14), rots=range(24)):
    out = []
    for P in partners:
        for patom in PARTNER_ATOMS[P]:
            for x in (hosts or [n for n in corpus.INPUT_NAMES
                                if T.base_of(n) in POLAR]):
                for pos in positions:
                    for t in POLAR.get(T.base_of(x), []):
                        for di in dirs:
                            for d in dists:
                                for ri in rots:
                                    out.append({
                                        "x": x, "pos": pos, "ff": ff,
                                        "opt": "default",
                                        "env": [["partner", P, patom, t, di,
                                                 d, ri]]})
    return out


def tetra_partner_cases(ff, hosts=("SER", "THR", "TYR"),
                        pairs=(("LYS", "LYS"), ("LYS", "ASP"),
                               ("ASP", "ASP")),
                        phis=range(0, 360, 30), positions=("mid",)):
    """Two partner side chains on two tetrahedral slots of one hydroxyl
    oxygen, for every torsion phi of the slot frame on a 30-degree lattice:
    two donors (the hydroxyl accepts two hydrogen bonds - both lone-pair
    placeholders in use), donor + acceptor, two acceptors."""
    out = []
    for x in hosts:
        t = POLAR[T.base_of(x)][0]
        for pos in positions:
            for P1, P2 in pairs:
                for phi in phis:
                    env = [["ideal", P1, PARTNER_ATOMS[P1][-1], t, phi,
                            0, 2.8],
                           ["ideal", P2, PARTNER_ATOMS[P2][-1], t, phi,
                            1, 2.8]]
                    out.append({"x": x, "pos": pos, "ff": ff,
                                "opt": "default", "env": env})
                    if (P1, P2) == ("LYS", "LYS"):
                        # a water on the third slot: where the hydroxyl
                        # hydrogen is built last, with queries still to come
                        out.append({"x": x, "pos": pos, "ff": ff,
                                    "opt": "default",
                                    "env": env + [["idealwater", t, phi, 2,
                                                   2.8]]})
    return out


def two_water_cases(ff, names=None):
    """Two waters on opposite/adjacent lattice directions of one polar atom
    (water-water phase of the optimiser)."""
    out = []
    pairs = [(0, 1), (0, 2), (2, 4), (6, 13), (0, 6), (4, 9)]
    for x in (names or corpus.INPUT_NAMES):
        for pos in corpus.POSITIONS:
            for t in polar_targets(x, pos):
                for d1, d2 in pairs:
                    out.append({"x": x, "pos": pos, "ff": ff, "opt": "default",
                                "env": [["water", t, d1, 2.8],
                                        ["water", t, d2, 2.8]]})
    return out


def water_omit_cases(ff):
    out = []
    for x in T.AMINO:
        for pos in corpus.POSITIONS:
            sc = sidechain_heavy(x, pos)
            if not sc:
                continue
            last = sc[-1]
            for t in polar_targets(x, pos):
                if t == last:
                    continue
                for di in (0, 3, 6, 9, 12):
                    out.append({"x": x, "pos": pos, "ff": ff, "opt": "default",
                                "env": [["omit", [last]],
                                        ["water", t, di, 2.8]]})
    return out


def extra_cases(ff, names=None):
    out = []
    for x in (names or T.AMINO):
        for pos in corpus.POSITIONS:
            for nm in ("CX9", "OX9"):
                out.append({"x": x, "pos": pos, "ff": ff, "opt": "default",
                            "env": [["extra", nm]]})
    return out


# ---------------------------------------------------------------------------
# real-structure windows: every contiguous k-residue window of the bundled
# structures (real, distorted geometry; a finite, fully enumerated family)
# ---------------------------------------------------------------------------
WINDOW_FILES = ["1AJJ.pdb", "1BX8.pdb", "cterm_hid.pdb", "1K1I.pdb",
                "1QBS.pdb", "1US0.pdb", "1AFS.pdb"]
_WCACHE = {}


def _file_residues(fname):
    """-> list of chains; chain = list of residues; residue = (res_name,
    res_seq, [(name, xyz)]) with heavy atoms of standard amino acids only,
    first alternate location, chains cut at non-standard residues / icodes."""
    if fname in _WCACHE:
        return _WCACHE[fname]
    from .engine import REPO

    chains, cur, last_key, seen = [], [], None, set()
    std = set(T.AMINO)
    for line in (REPO / "tests/data" / fname).read_text().splitlines():
        if line.startswith("ENDMDL"):
            break
        if line.startswith("TER"):
            if cur:
                chains.append(cur)
            cur, last_key = [], None
            continue
        if not line.startswith("ATOM"):
            continue
        name = line[12:16].strip()
        alt = line[16]
        resn = line[17:20].strip()
        key = (line[21], int(line[22:26]), line[26])
        elem = line[76:78].strip() if len(line) >= 78 else ""
        if resn not in std or key[2] != " ":
            if cur:
                chains.append(cur)
            cur, last_key = [], None
            continue
        if elem == "H" or name.startswith("H") or (name[0].isdigit()
                                                   and "H" in name[:2]):
            continue
        if alt not in (" ", "A"):
            continue
        if key != last_key:
            if last_key is not None and (key[0] != last_key[0]
                                         or key[1] != last_key[1] + 1):
                if cur:
                    chains.append(cur)
                cur = []
            cur.append((resn, key[1], []))
            last_key = key
        if name in [n for n, _ in cur[-1][2]]:
            continue
        cur[-1][2].append((name, np.array([float(line[30:38]),
                                           float(line[38:46]),
                                           float(line[46:54])])))
    if cur:
        chains.append(cur)
    _WCACHE[fname] = chains
    return chains


def window_cases(ff, files=None, k=3, opt="default"):
    out = []
    for f in (files or WINDOW_FILES):
        for ci, chain in enumerate(_file_residues(f)):
            for i in range(0, len(chain) - k + 1):
                out.append({"window": [f, ci, i, k], "ff": ff, "opt": opt,
                            "env": []})
    return out


def build_window(desc):
    f, ci, i, k = desc["window"]
    chain = _file_residues(f)[ci]
    atoms, info = [], []
    for j, (resn, seq, alist) in enumerate(chain[i:i + k]):
        tmpl = T.load()[0][resn]
        for name, xyz in alist:
            if name == "OXT" and j != k - 1:
                continue
            if name not in tmpl.atoms and name != "OXT":
                continue
            atoms.append(build.BAtom(name=name, res_name=resn, chain="A",
                                     res_seq=seq, icode="", xyz=xyz.copy(),
                                     record="ATOM", res_idx=j))
        info.append({"kind": "aa", "input": resn,
                     "position": "n" if j == 0 else "c" if j == k - 1 else "mid",
                     "chain": "A", "res_seq": seq, "target": j == k // 2})
    return build.pdb_text(atoms), info, atoms


# ---------------------------------------------------------------------------
# real-structure neighbourhoods ("hoods"): for every residue of a bundled
# structure, the residues with a heavy atom within `radius` of it, each padded
# with its sequence neighbours, written as one chain per contiguous fragment.
# Unlike sequence windows a hood keeps the *spatial* partners of the centre,
# so the hydrogen-bond networks, flips and bumps of the real fold (several
# optimisable groups around one residue, both cysteines of a bridge) are
# present.  One hood per residue: a finite, fully enumerated family.
# ---------------------------------------------------------------------------
def hood_members(f, ci, i, radius):
    chains = _file_residues(f)
    centre = np.array([xyz for _n, xyz in chains[ci][i][2]])
    picked = set()
    for cj, chain in enumerate(chains):
        for j, (_rn, _seq, alist) in enumerate(chain):
            if not alist:
                continue
            xyz = np.array([x for _n, x in alist])
            d = np.sqrt(((xyz[:, None, :] - centre[None, :, :]) ** 2)
                        .sum(-1)).min()
            if d < radius:
                for jj in (j - 1, j, j + 1):
                    if 0 <= jj < len(chain):
                        picked.add((cj, jj))
    frags, cur = [], []
    for cj, j in sorted(picked):
        if cur and (cur[-1][0] != cj or cur[-1][1] != j - 1):
            frags.append(cur)
            cur = []
        cur.append((cj, j))
    if cur:
        frags.append(cur)
    return frags


def hood_cases(ff, files=None, radius=4.5, opt="default", oxt=False,
               complete_only=False):
    out = []
    for f in (files or WINDOW_FILES):
        for ci, chain in enumerate(_file_residues(f)):
            for i in range(len(chain)):
                d = {"hood": [f, ci, i, radius], "ff": ff, "opt": opt,
                     "env": []}
                if oxt:
                    d["oxt"] = True
                if complete_only and not hood_complete(d):
                    continue
                out.append(d)
    return out


def hood_complete(desc):
    """True if every residue of the hood has all heavy atoms of its
    template (OXT aside)."""
    f, ci, i, radius = desc["hood"]
    chains = _file_residues(f)
    for frag in hood_members(f, ci, i, radius):
        if len(frag) < 2:
            continue
        for cj, j in frag:
            resn, _seq, alist = chains[cj][j]
            have = {n for n, _x in alist}
            want = {n for n in T.load()[0][resn].atoms
                    if not n.startswith("H")}
            if want - have:
                return False
    return True


def build_hood(desc):
    f, ci, i, radius = desc["hood"]
    chains = _file_residues(f)
    atoms, info = [], []
    seq = 1
    ridx = 0
    for fi, frag in enumerate(hood_members(f, ci, i, radius)):
        if len(frag) < 2:
            continue
        cid = "ABCDEFGHIJKLMNOPQRSTUVXYZ"[fi % 25]
        for k, (cj, j) in enumerate(frag):
            resn, _oseq, alist = chains[cj][j]
            tmpl = T.load()[0][resn]
            last = k == len(frag) - 1
            for name, xyz in alist:
                if name == "OXT" and not last:
                    continue
                if name not in tmpl.atoms and name != "OXT":
                    continue
                atoms.append(build.BAtom(name=name, res_name=resn, chain=cid,
                                         res_seq=seq, icode="",
                                         xyz=xyz.copy(), record="ATOM",
                                         res_idx=ridx))
            have = dict(alist)
            if last and desc.get("oxt") and "OXT" not in have \
                    and all(n in have for n in ("CA", "C", "O")):
                # the second carboxylate oxygen in the plane CA-C-O, mirror
                # image of O about the CA-C line (the cut fragment becomes a
                # complete chain)
                u = have["C"] - have["CA"]
                u = u / np.linalg.norm(u)
                v = have["O"] - have["C"]
                atoms.append(build.BAtom(
                    name="OXT", res_name=resn, chain=cid, res_seq=seq,
                    icode="", xyz=have["C"] + 2.0 * np.dot(v, u) * u - v,
                    record="ATOM", res_idx=ridx))
            info.append({"kind": "aa", "input": resn,
                         "position": "n" if k == 0 else "c" if last else "mid",
                         "chain": cid, "res_seq": seq,
                         "target": (cj, j) == (ci, i)})
            seq += 1
            ridx += 1
        seq += 10
    return build.pdb_text(atoms), info, atoms


def build_gap(desc):
    """One chain (same id, no TER, no OXT at the break) with a geometric gap:
    ALA-ALA-GLY ... x-ALA-ALA, the second part 12 A away, numbering 1-3, 7-9."""
    x = desc["gap"]
    a = build.build_peptide(["ALA", "ALA", "GLY"], oxt=False, start=1)
    b = build.build_peptide([x, "ALA", "ALA"], start=7,
                            origin=(0.0, 12.0, 0.0))
    for at in b:
        at["res_idx"] += 3
    atoms = a + b
    info = []
    for i, (name, seq) in enumerate(zip(["ALA", "ALA", "GLY", x, "ALA", "ALA"],
                                        [1, 2, 3, 7, 8, 9])):
        info.append({"kind": "aa", "input": name,
                     "position": "n" if i == 0 else "c" if i == 5 else "mid",
                     "chain": "A", "res_seq": seq, "target": i == 3})
    return build.pdb_text(atoms, ter=False), info, atoms


def gap_cases(ff, opts=("default",)):
    return [{"gap": x, "ff": ff, "opt": o, "env": []}
            for o in opts for x in T.AMINO]


def rebuilt_clash_cases(ff, names=None, opts=("default",)):
    """2 deviations: a truncated side chain plus a water sitting on the
    position where the farthest omitted atom will be rebuilt (the rebuilt
    atom clashes, so the residue is debumped before AND after hydrogens are
    added)."""
    out = []
    for x in (names or T.AMINO):
        for pos in corpus.POSITIONS:
            for sfx in suffixes(x, pos):
                for opt in opts:
                    out.append({"x": x, "pos": pos, "ff": ff, "opt": opt,
                                "env": [["omit", sfx],
                                        ["clashheavy", sfx[-1]]]})
    return out


def multi_clash_cases(ff, names=None, all_pairs=False):
    """Several clash probes on one residue (a clash that the first torsion
    cannot resolve makes the debumper go on to further torsions): all
    side-chain hydrogens at once, and every hydrogen paired with the last
    one (thorough: all pairs)."""
    out = []
    for x in (names or corpus.INPUT_NAMES):
        for pos in corpus.POSITIONS:
            hs = [h for h in hydrogens_of(x, pos)
                  if h not in ("H", "H2", "H3", "HA", "HA2", "HA3", "HO")]
            if len(hs) < 2:
                continue
            sets = [hs]
            if all_pairs:
                sets += [[a, b] for i, a in enumerate(hs) for b in hs[i + 1:]]
            else:
                sets += [[h, hs[-1]] for h in hs[:-1]]
                sets += [[hs[0], h] for h in hs[1:-1]]
            seen = []
            for st in sets:
                if st in seen:
                    continue
                seen.append(st)
                out.append({"x": x, "pos": pos, "ff": ff, "opt": "default",
                            "env": [["clash", h] for h in st]})
    return out


def neutral_cases():
    """PARSE with neutral termini: bare hosts at the chain ends and water
    probes on the terminal N / O / OXT (the neutral carboxyl group is an
    optimisable 'Carboxylic' group of its own)."""
    out = []
    for opt in NEUTRAL_SETS:
        for x in corpus.INPUT_NAMES:
            for pos in ("n", "c"):
                out.append({"x": x, "pos": pos, "ff": "PARSE", "opt": opt,
                            "env": []})
    for x in ("ALA", "GLY", "SER", "ASP", "LYS", "PRO"):
        for pos, targets, opt in (("c", ("O", "OXT"), "neutralc"),
                                  ("n", ("N",), "neutraln")):
            for t in targets:
                for di in range(14):
                    out.append({"x": x, "pos": pos, "ff": "PARSE", "opt": opt,
                                "env": [["water", t, di, 2.8]]})
    return out


def omit_h_cases(ff, names=None, opts=("default",)):
    """Input WITH hydrogens (3-decimal precision) from which one hydrogen is
    missing: it must be rebuilt next to its input siblings."""
    out = []
    for opt in opts:
        for x in (names or corpus.INPUT_NAMES):
            for pos in corpus.POSITIONS:
                for h in hydrogens_of(x, pos):
                    out.append({"x": x, "pos": pos, "ff": ff, "opt": opt,
                                "hydrogens": True, "env": [["omit", [h]]]})
    return out


def keep_one_h_cases(ff, names=None, opts=("default",),
                     orders=("template", "parent")):
    """Input with hydrogens in which a group of sibling hydrogens (NH3+, CH3,
    CH2, NH2) keeps exactly one member; records in template order and with
    each hydrogen directly after its parent."""
    out = []
    for x in (names or ["ALA", "GLY", "LYS", "SER", "VAL", "MET", "ASN",
                        "ARG", "PRO", "ILE"]):
        for pos in corpus.POSITIONS:
            hs = hydrogens_of(x, pos)
            tmpl = T.expected_topology(x, pos)
            groups = {}
            for h in hs:
                groups.setdefault(tmpl.atoms[h].bonds[0], []).append(h)
            for parent, sibs in sorted(groups.items()):
                if len(sibs) < 2:
                    continue
                for keep in sibs:
                    for order in orders:
                        for opt in opts:
                            d = {"x": x, "pos": pos, "ff": ff, "opt": opt,
                                 "hydrogens": True,
                                 "env": [["omit", [h for h in sibs
                                                   if h != keep]]]}
                            if order != "template":
                                d["h_order"] = order
                            out.append(d)
    return out


def omit_backbone_cases(ff, names=None):
    """One backbone heavy atom missing (rebuilt from the neighbouring
    residues' atoms through the N+1 / C-1 pseudo atoms)."""
    out = []
    for x in (names or T.AMINO):
        for pos in corpus.POSITIONS:
            for a in ("O", "C", "N", "CA"):
                out.append({"x": x, "pos": pos, "ff": ff, "opt": "default",
                            "env": [["omit", [a]]]})
    return out


def omit_pair_cases(ff, names=None, all_pairs=False):
    """Two heavy atoms of one residue missing that are rebuilt in different
    local frames: a backbone oxygen together with a side-chain atom, or CB
    together with the far end of the side chain (all_pairs: every pair of
    heavy atoms of the residue)."""
    out = []
    for x in (names or T.AMINO):
        for pos in corpus.POSITIONS:
            side = sidechain_heavy(x, pos)
            back = ["O"] + (["OXT"] if pos == "c" else [])
            pairs = []
            if all_pairs:
                heavy = ["N", "CA", "C"] + back + side
                pairs = [[a, b] for i, a in enumerate(heavy)
                         for b in heavy[i + 1:]]
            else:
                ends = [a for a in (side[:1] + side[-1:])]
                for b in back:
                    for a in dict.fromkeys(ends):
                        pairs.append([b, a])
                if len(side) >= 3:
                    pairs.append([side[0], side[-1]])
                if pos == "c":
                    pairs.append(["O", "OXT"])
            for pr in pairs:
                out.append({"x": x, "pos": pos, "ff": ff, "opt": "default",
                            "env": [["omit", pr]]})
    return out


def asym_acid_cases(ffs=("AMBER", "PARSE")):
    """Acids whose two C-O bonds differ by 0.08 A (either one longer): the
    optimiser handles such groups in a branch of its own."""
    out = []
    for ff in ffs:
        for x in ("ASP", "ASH", "GLU", "GLH"):
            for pos in corpus.POSITIONS:
                for which in (1, 2):
                    for opt in ("default", "noopt"):
                        out.append({"x": x, "pos": pos, "ff": ff, "opt": opt,
                                    "asym": which, "env": []})
                    out.append({"x": x, "pos": pos, "ff": ff, "opt": "default",
                                "asym": which,
                                "env": [["water",
                                         "OD2" if x[0] == "A" else "OE2",
                                         0, 2.8]]})
    return out


# ---------------------------------------------------------------------------
# the torsion alphabet: the debumper's own operation driven exhaustively
# ---------------------------------------------------------------------------
TORSION_STEPS = (30.0, 90.0, 180.0, 270.0)
BACKBONE = ("N", "CA", "C", "O", "OXT")


_PINNED = None


def _pinned_aliases():
    global _PINNED
    if _PINNED is None:
        import json
        from .engine import VERIF

        _PINNED = json.loads((VERIF / "mc/refs/alias_names.json").read_text())
    return _PINNED


def alias_cases(ffs=("AMBER",), names=None):
    """Every alternative atom name the topology files define for a residue
    (and for its terminal patches, charged or neutral): the input uses the
    alternative name for one atom.  Hydrogen aliases come with a fully
    hydrogenated input.  Under the PARSE neutral-terminus options the
    aliases of the terminal atoms are those of the charged terminus too."""
    out = []
    for x in (names or T.AMINO):
        for pos in corpus.POSITIONS:
            tmpl = T.expected_topology(x, pos)
            al = {}
            for alt, canon in tmpl.altnames.items():
                if canon in tmpl.atoms and alt not in tmpl.atoms:
                    al.setdefault(canon, []).append(alt)
            # plus the pinned list (refs/alias_names.json): a spelling that
            # disappears from the topology files must still be tried
            for canon, alts in _pinned_aliases().get(f"{x}:{pos}",
                                                     {}).items():
                for alt in alts:
                    if canon in tmpl.atoms and alt not in tmpl.atoms \
                            and alt not in al.get(canon, []):
                        al.setdefault(canon, []).append(alt)
            for canon, alts in sorted(al.items()):
                if T.base_of(x) == "PRO" and pos == "n" and \
                        canon in ("H", "H2", "H3"):
                    # the imino nitrogen of an N-terminal proline does not
                    # carry the hydrogens the generic terminus patch lists
                    continue
                for alt in alts:
                    if len(alt) > 4:
                        continue
                    for ff in ffs:
                        d = {"x": x, "pos": pos, "ff": ff, "opt": "default",
                             "env": [["alias", canon, alt]]}
                        if canon.startswith("H"):
                            d["hydrogens"] = True
                        out.append(d)
                    if pos == "n" and canon in ("H", "H2", "H3"):
                        # old-style names of the amino hydrogens under a
                        # neutral N-terminus (the third one is to be dropped)
                        for opt in ("neutraln", "neutral_both"):
                            out.append({"x": x, "pos": pos, "ff": "PARSE",
                                        "opt": opt, "hydrogens": True,
                                        "env": [["alias", canon, alt]]})
                    if canon.startswith("H") or pos == "mid":
                        continue
                    for opt in (("neutraln", "neutral_both") if pos == "n"
                                else ("neutralc", "neutral_both")):
                        ntm = T.expected_topology(
                            x, pos,
                            neutraln=opt in ("neutraln", "neutral_both"),
                            neutralc=opt in ("neutralc", "neutral_both"))
                        if canon in ntm.atoms:
                            out.append({"x": x, "pos": pos, "ff": "PARSE",
                                        "opt": opt,
                                        "env": [["alias", canon, alt]]})
    return out


def water_h_cases(ff="AMBER"):
    """A water that carries only one of its two hydrogens in the input."""
    out = []
    for keep in (["H1"], ["H2"]):
        for x in ("ALA", "SER", "LYS"):
            for opt in ("default", "noopt", "nodebump_noopt"):
                for xyz in ([9.0, 9.0, 9.0], [4.5, 6.0, 2.0]):
                    out.append({"x": x, "pos": "mid", "ff": ff, "opt": opt,
                                "env": [], "waters": [xyz],
                                "water_h": keep})
    return out


def altloc_cases(ff="AMBER", names=None,
                 labels=(("A", "B"), ("B", "C"), ("1", "2"), ("b", "a"))):
    """The side chain of the target residue listed in two alternate
    locations; labels need not be A/B."""
    out = []
    for x in (names or T.AMINO):
        if not sidechain_heavy(x, "mid"):
            continue
        for pos in corpus.POSITIONS:
            for la, lb in labels:
                for opt in ("default", "nodebump_noopt"):
                    out.append({"x": x, "pos": pos, "ff": ff, "opt": opt,
                                "env": [["altloc", la, lb]]})
    return out


def torsion_cases(ff="AMBER", names=None, opts=("default",)):
    """Every side-chain torsion the topology defines for a residue, set to
    four angles in turn through the debumper's own routine (the search of
    the debumper reaches the deeper torsions only in crowded surroundings;
    here each one is exercised directly)."""
    out = []
    for opt in opts:
        for x in (names or corpus.INPUT_NAMES):
            for pos in corpus.POSITIONS:
                out.append({"x": x, "pos": pos, "ff": ff, "opt": opt,
                            "env": [], "drive_torsions": True})
    return out


def torsion_drive(case, info, log=None):
    """Context manager: right after the second debumping pass (all hydrogens
    present) every side-chain torsion of the target residue is set to its
    current value + 30, 90, 180 and 270 degrees through
    Debump.set_dihedral_angle.  No-op unless case['drive_torsions']."""
    import contextlib

    from pdb2pqr import debump

    if not case.get("drive_torsions"):
        return contextlib.nullcontext()
    target = next(i["res_seq"] for i in info if i.get("target"))
    state = {"calls": 0}

    def drive(orig, self_, *a, **k):
        state["calls"] += 1
        result = orig(self_, *a, **k)
        # after the pass: cells, bonds of the new hydrogens and the torsion
        # table are those the debumper itself works with
        if state["calls"] == 2:
            residue = next(r for r in self_.biomolecule.residues
                           if r.res_seq == target
                           and hasattr(r, "reference"))
            for idx, text in enumerate(residue.reference.dihedrals):
                names = text.split()
                if idx >= len(residue.dihedrals) or \
                        residue.dihedrals[idx] is None:
                    continue
                if any(n in ("N+1", "C-1") for n in names):
                    continue
                if names[2] in BACKBONE or not all(
                        residue.has_atom(n) for n in names):
                    continue
                for step in TORSION_STEPS:
                    self_.set_dihedral_angle(
                        residue, idx, residue.dihedrals[idx] + step)
                    if log is not None:
                        log.append((text, step))
        return result

    return pipeline_monitor(debump.Debump, "debump_biomolecule", drive)


def pipeline_monitor(owner, name, replace):
    from . import pipeline

    return pipeline.monitor(owner, name, replace=replace)

