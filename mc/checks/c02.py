"""C02 - every residue carries the formal charge of its state; termini are
applied exactly once per chain end.

Exhaustive grid (input residue name x chain position x force field x option
set), complete chain-layout alphabet with every residue type at the chain
ends, nucleic strands of length 1-3, cyclic closures around the 1.35 A
threshold; oracle = chemistry table of formal charges evaluated on the charge
column of the written PQR.
"""

import itertools

import numpy as np

from .. import build, corpus, engine, pipeline
from ..refs import pqr_ref
from ..refs import templates as T

PROPERTY = "C02"
LEVEL = "model_checking"
RULE = (
    "all cases of: grid (33 input residue names x 3 positions x 6 force "
    "fields x {default, --noopt --nodebump}) + PARSE x neutraln/neutralc "
    "subsets; layouts (14 chain layouts x 20 residue types at the chain ends "
    "x {AMBER, PARSE}); strands (every nucleotide, lengths 1-3, each force "
    "field with nucleic parameters); cyclic closures (N..C distance lattice "
    "around 1.35 A).  non-trivial = distinct (force field, state-qualified "
    "residue) pairs whose charge was checked + distinct layout cases"
)
ASSUMPTIONS = [
    "formal charges of states are the chemistry table in mc/corpus.py "
    "(SIDE_CHARGE) plus +1/-1 for charged N-/C-termini",
    "the final state of a residue is inferred from the written atoms and "
    "what the harness built, not from the implementation's ffname",
    "runs that abort are C12's business and only counted here",
]
BOUND = {
    "quick": "complete grid, complete layout alphabet (18 layouts) for AMBER "
    "and PARSE, strands up to length 3, closure lattice of 8 distances, "
    "protein + strand + waters in all 6 file orders x 6 force fields, 33 "
    "seed-rotated pairs of different end residues x 3 force fields",
    "thorough": "quick plus layouts for all six force fields, all 33 x 33 "
    "pairs of end residues x 6 force fields and the grid with hydrogenated "
    "inputs",
}


def residue_charges(r, opts):
    """Sum of the PQR charge column per model residue, walking the matched
    atom order (model atoms minus the reported unassigned ones)."""
    ws = "--whitespace" in opts
    pqr = pqr_ref.parse(r.pqr_text, whitespace=ws, keep_chain=False)
    missed = {id(a) for a in (r.missed or [])}
    out = []
    k = 0
    for res in r.bm.residues:
        q = 0.0
        n_missed = 0
        for atom in res.atoms:
            if id(atom) in missed:
                n_missed += 1
                continue
            if k < len(pqr):
                q += pqr[k]["charge"]
            k += 1
        out.append((res, q, n_missed))
    return out, k == len(pqr), sum(p["charge"] for p in pqr)


def check_run(r, info, ff, opts, tag, n_ends=None, cyclic=False,
              extra_ends=0):
    from pdb2pqr import aa, na

    viol, events, cells = [], {}, set()
    neutraln = "--neutraln" in opts
    neutralc = "--neutralc" in opts
    per_res, aligned, total = residue_charges(r, opts)
    if not aligned:
        viol.append((f"C02/{tag}/{ff}/pqr-lines-do-not-match-model", {}))
        return viol, events, cells
    by_key = {(i["chain"] if i.get("chain") is not None else "",
               i["res_seq"], i.get("icode", "")): i for i in info}
    by_seq = {}
    for i in info:
        by_seq.setdefault((i["res_seq"], i.get("icode", "")), []).append(i)
    expected_total = 0
    all_assigned = True
    n_nterm = n_cterm = 0
    strand_q = {}
    strand_p = {}
    for res, q, n_missed in per_res:
        cand = by_seq.get((res.res_seq, res.ins_code), [])
        inf = None
        for c in cand:
            if len(cand) == 1 or c.get("_used") is None:
                inf = c
                break
        if inf is None:
            viol.append((f"C02/{tag}/{ff}/unknown-residue", {"res": str(res)}))
            continue
        if len(cand) > 1:
            inf["_used"] = True
        names = [a.name for a in res.atoms]
        if isinstance(res, aa.Amino):
            position = inf["position"]
            if cyclic and not inf.get("linear"):
                position = "mid"
            state = corpus.state_ref(inf["input"], position, names,
                                     neutraln=neutraln, neutralc=neutralc)
            if "H2" in names or "H3" in names:
                n_nterm += 1
            if "OXT" in names:
                n_cterm += 1
            if n_missed:
                all_assigned = False
                k = f"partially-unassigned:{ff}:{state}"
                events[k] = events.get(k, 0) + 1
                continue
            if state[-3:] not in corpus.allowed_states(inf["input"]):
                # e.g. an input HSP (doubly protonated by name) that ends as
                # a neutral tautomer: charge consistent with the wrong state
                viol.append((f"C02/{tag}/{ff}/{inf['input']}/"
                             f"state-differs-from-input-name:{state[-3:]}",
                             {"names": sorted(names)}))
            fq = corpus.formal_charge(state)
            expected_total += fq
            cells.add(f"{ff}:{state}")
            k = f"charge-ok:{ff}:{state}"
            if abs(q - fq) > 1e-3:
                viol.append((f"C02/{tag}/{ff}/{state}/residue-charge",
                             {"got": round(q, 4), "expected": fq,
                              "ffname": res.ffname}))
            else:
                events[k] = events.get(k, 0) + 1
            # terminal markers must agree with the harness's chain ends
            has_n = "H2" in names or "H3" in names
            has_c = "OXT" in names
            want_n = position in ("n", "nc")
            want_c = position in ("c", "nc")
            if has_n != want_n or has_c != want_c:
                viol.append((f"C02/{tag}/{ff}/terminus-misplaced/"
                             f"{inf['position']}",
                             {"res": str(res), "names": names}))
        elif isinstance(res, na.Nucleic):
            cid = inf.get("strand", 0)
            strand_p[cid] = strand_p.get(cid, 0) + (1 if "P" in names else 0)
            if n_missed or strand_q.get(cid, 0.0) is None:
                strand_q[cid] = None  # not fully parameterised: no claim
                all_assigned = False
                k = f"partially-unassigned:{ff}:{inf['input']}"
                events[k] = events.get(k, 0) + 1
            else:
                strand_q[cid] = strand_q.get(cid, 0.0) + q
        elif isinstance(res, aa.WAT):
            if n_missed:
                all_assigned = False
                continue
            cells.add(f"{ff}:WAT")
            if abs(q) > 1e-3:
                viol.append((f"C02/{tag}/{ff}/WAT/residue-charge",
                             {"got": round(q, 4)}))
        else:
            if n_missed:
                all_assigned = False
    # the total the program itself reports (header / returned model)
    if all_assigned:
        try:
            reported = float(r.bm.charge[1])
        except Exception:  # noqa: BLE001 - absence is not judged here
            reported = None
        if reported is not None and abs(reported - total) > 1e-3:
            viol.append((f"C02/{tag}/{ff}/reported-total-differs-from-atoms",
                         {"reported": round(reported, 4),
                          "written_atoms": round(total, 4)}))
    # every residue the harness built must be a residue of the model
    model_keys = {}
    for res, _q, _m in per_res:
        k = (res.res_seq, res.ins_code)
        model_keys[k] = model_keys.get(k, 0) + 1
    built = {}
    for i in info:
        k = (i["res_seq"], i.get("icode", ""))
        built[k] = built.get(k, 0) + 1
    for k, n in built.items():
        if model_keys.get(k, 0) != n:
            viol.append((f"C02/{tag}/{ff}/built-residue-count-differs",
                         {"residue": k, "built": n,
                          "in_model": model_keys.get(k, 0)}))
            break
    for cid, q in strand_q.items():
        if q is None:
            continue
        cells.add(f"{ff}:strand")
        want = -strand_p[cid]
        expected_total += want
        if abs(q - want) > 1e-3:
            viol.append((f"C02/{tag}/{ff}/strand-charge",
                         {"got": round(q, 4), "expected": want}))
        else:
            events[f"strand-ok:{ff}"] = events.get(f"strand-ok:{ff}", 0) + 1
    if abs(total - round(total)) > 1e-3:
        viol.append((f"C02/{tag}/{ff}/total-not-integer", {"total": total}))
    if all_assigned and abs(total - expected_total) > 1e-3:
        viol.append((f"C02/{tag}/{ff}/total-charge",
                     {"total": round(total, 4), "expected": expected_total}))
    if isinstance(n_ends, tuple):
        # (N-termini, C-termini) of a chain with capping groups
        if (n_nterm, n_cterm) != n_ends:
            viol.append((f"C02/{tag}/{ff}/terminus-count",
                         {"n_term": n_nterm, "c_term": n_cterm,
                          "expected": list(n_ends)}))
        else:
            events[f"termini-ok:{tag}"] = events.get(f"termini-ok:{tag}", 0) + 1
    elif n_ends is not None:
        want = 0 if cyclic else n_ends // 2
        want += extra_ends
        if n_nterm != want or n_cterm != want:
            viol.append((f"C02/{tag}/{ff}/terminus-count",
                         {"n_term": n_nterm, "c_term": n_cterm,
                          "chain_ends_each": want}))
        else:
            events[f"termini-ok:{tag}"] = events.get(f"termini-ok:{tag}", 0) + 1
    return viol, events, cells


def cyclic_atoms(d_close):
    """Heavy atoms of the bundled head-to-tail cyclic peptide with the
    closing C moved along N(1)..C(14) so that the distance is d_close."""
    from ..engine import REPO

    atoms = []
    for line in (REPO / "tests/data/5vav_cyclic_peptide.pdb").read_text() \
            .splitlines():
        if not line.startswith("ATOM"):
            continue
        name = line[12:16].strip()
        if name.startswith("H") or (name[0].isdigit() and "H" in name):
            continue
        atoms.append(build.BAtom(
            name=name, res_name=line[17:20].strip(), chain="A",
            res_seq=int(line[22:26]), icode="",
            xyz=np.array([float(line[30:38]), float(line[38:46]),
                          float(line[46:54])]), record="ATOM",
            res_idx=int(line[22:26])))
    first = min(a["res_seq"] for a in atoms)
    last = max(a["res_seq"] for a in atoms)
    n1 = next(a for a in atoms if a["res_seq"] == first and a["name"] == "N")
    c14 = next(a for a in atoms if a["res_seq"] == last and a["name"] == "C")
    u = c14["xyz"] - n1["xyz"]
    d0 = float(np.linalg.norm(u))
    c14["xyz"] = n1["xyz"] + u / d0 * d_close
    info = []
    seen = set()
    for a in atoms:
        if a["res_seq"] in seen:
            continue
        seen.add(a["res_seq"])
        info.append({"kind": "aa", "input": a["res_name"], "chain": "A",
                     "res_seq": a["res_seq"], "icode": "",
                     "position": "n" if a["res_seq"] == first else
                     "c" if a["res_seq"] == last else "mid"})
    return atoms, info, d0


def run_case(case):
    mode = case["mode"]
    ff = case["ff"]
    opts = list(case.get("opts", [])) + [f"--ff={ff}"]
    res = {"evals": 1, "violations": [], "events": {}, "nontrivial": []}
    n_ends = None
    cyclic = False
    if mode == "grid":
        atoms, info = corpus.build_host(case["desc"])
        text = build.pdb_text(atoms)
        tag = "grid"
        n_ends = 2
    elif mode == "ends":
        # different residues at the two chain ends
        seq = [case["x"], "ALA", case["y"]]
        atoms = build.build_peptide(seq)
        info = [{"kind": "aa", "input": nm, "chain": "A", "res_seq": 1 + i,
                 "icode": "", "position": ("n", "mid", "c")[i]}
                for i, nm in enumerate(seq)]
        text = build.pdb_text(atoms)
        tag = "ends"
        n_ends = 2
    elif mode == "capped":
        # acetyl / N-methyl / amide caps: the capped end is no terminus
        caps = case["caps"]
        x = case["x"]
        seq = ["GLY", x, "ALA", x, "GLY"]
        built = build.build_peptide(seq)
        atoms, info = [], []
        ccap = next((c for c in caps if c in ("NME", "NH2")), None)
        for a in built:
            a = build.BAtom(a)
            if a["res_idx"] == 0:
                if "ACE" not in caps or a["name"] == "N":
                    continue
                a["res_name"] = "ACE"
                a["name"] = {"CA": "CH3"}.get(a["name"], a["name"])
            elif a["res_idx"] == 4:
                if ccap is None or a["name"] not in ("N", "CA") or \
                        (ccap == "NH2" and a["name"] == "CA"):
                    continue
                a["res_name"] = ccap
                a["name"] = {"CA": "CH3"}.get(a["name"], a["name"])
            atoms.append(a)
        if "ACE" in caps:
            info.append({"kind": "het", "input": "ACE", "chain": "A",
                         "res_seq": 1, "icode": ""})
        for i, nm in enumerate(seq[1:4]):
            pos = "mid"
            if i == 0 and "ACE" not in caps:
                pos = "n"
            if i == 2 and ccap is None:
                pos = "c"
            info.append({"kind": "aa", "input": nm, "chain": "A",
                         "res_seq": 2 + i, "icode": "", "position": pos})
        if ccap:
            info.append({"kind": "het", "input": ccap, "chain": "A",
                         "res_seq": 5, "icode": ""})
        text = build.pdb_text(atoms)
        tag = "capped:" + ("+".join(caps) or "none")
        n_ends = (0 if "ACE" in caps else 1, 0 if ccap else 1)
    elif mode == "complex":
        # protein chain(s) + nucleic strand + waters in one file
        atoms, info = [], []
        order = case["order"]
        for part in order:
            if part == "P":
                pep = build.build_peptide(["LYS", "ASP", "HIS", "GLU"],
                                          chain="A")
                atoms += pep
                info += [{"kind": "aa", "input": nm, "chain": "A",
                          "res_seq": 1 + i, "icode": "",
                          "position": ("n", "mid", "mid", "c")[i]}
                         for i, nm in enumerate(["LYS", "ASP", "HIS", "GLU"])]
            elif part == "N":
                st = build.build_strand(case["seq"], chain="N", start=101,
                                        origin=(0.0, 40.0, 0.0))
                atoms += st
                info += [{"kind": "na", "input": n, "chain": "N",
                          "res_seq": 101 + i, "icode": "", "strand": 0}
                         for i, n in enumerate(case["seq"])]
            else:
                for k in range(2):
                    atoms.append(build.water((30.0 + 4 * k, -20.0, 5.0),
                                             201 + k))
                    info.append({"kind": "wat", "input": "HOH", "chain": "W",
                                 "res_seq": 201 + k, "icode": "",
                                 "position": None})
        text = build.pdb_text(atoms)
        tag = "complex:" + "".join(order)
        n_ends = 2
    elif mode == "mixed":
        atoms, info = corpus.build_mixed(case["name"])
        text = build.pdb_text(atoms)
        tag = "mixed:" + case["name"]
        n_ends = 2
    elif mode == "layout":
        atoms, info, n_ends = corpus.build_layout(case["layout"], case["x"],
                                                  oxt=case.get("oxt", True))
        text = corpus.layout_text(case["layout"], atoms)
        tag = "layout:" + case["layout"] + ("" if case.get("oxt", True)
                                            else ":no-oxt")
    elif mode == "strand":
        atoms = build.build_strand(case["seq"], naming=case["naming"])
        info = [{"kind": "na", "input": n, "chain": "N", "res_seq": 1 + i,
                 "icode": "", "strand": 0} for i, n in enumerate(case["seq"])]
        text = build.pdb_text(atoms)
        tag = f"strand:len{len(case['seq'])}:{case['naming']}"
    elif mode == "cyclic":
        atoms, info, _d0 = cyclic_atoms(case["d"])
        other = case.get("other")
        if other:
            # a second, linear chain whose id sorts before / after the ring's
            lin = build.build_peptide(["SER", "ILE", "SER"], chain="L",
                                      start=101, origin=(40.0, 0.0, 0.0))
            if other == "after":
                for a in atoms:
                    a["chain"] = "A"
                for i_ in info:
                    i_["chain"] = "A"
                atoms = atoms + lin
            else:
                for a in atoms:
                    a["chain"] = "Z"
                for i_ in info:
                    i_["chain"] = "Z"
                atoms = lin + atoms
            for k, nm in enumerate(["SER", "ILE", "SER"]):
                info.append({"kind": "aa", "input": nm, "chain": "L",
                             "res_seq": 101 + k, "icode": "",
                             "position": ("n", "mid", "c")[k],
                             "linear": True})
        around = case.get("around")
        if around:
            # waters / an ion carrying the ring's chain id, listed after
            # (and before) the peptide: the ring stays a ring
            cid = atoms[0]["chain"]
            last = max(a["res_seq"] for a in atoms)
            head, tail_ = [], []
            if "ion" in around:
                head.append(build.BAtom(
                    name="ZN", res_name="ZN", chain=cid, res_seq=0, icode="",
                    xyz=np.array([30.0, 0.0, 0.0]), record="HETATM",
                    res_idx=-1))
            if "water" in around:
                tail_.append(build.water((25.0, 9.0, 9.0), last + 187,
                                         chain=cid))
                tail_.append(build.water((25.0, 13.0, 9.0), last + 188,
                                         chain=cid))
            atoms = head + atoms + tail_
            for a in head + tail_:
                if not any(i_["res_seq"] == a["res_seq"] for i_ in info):
                    info.append({"kind": "wat" if a["res_name"] == "HOH"
                                 else "het", "input": a["res_name"],
                                 "chain": cid, "res_seq": a["res_seq"],
                                 "icode": "", "linear": True})
        # the file coordinates carry 3 decimals: recompute the distance
        ring = [i_ for i_ in info if not i_.get("linear")]
        n1 = next(a for a in atoms if a["name"] == "N"
                  and a["res_seq"] == ring[0]["res_seq"])
        c14 = next(a for a in atoms if a["name"] == "C"
                   and a["res_seq"] == ring[-1]["res_seq"])
        d = float(np.linalg.norm(np.round(n1["xyz"], 3) - np.round(c14["xyz"], 3)))
        cyclic = d < 1.35
        if abs(d - 1.35) < 2e-3:
            return res  # on the threshold within file precision: not decided
        text = build.pdb_text(atoms)
        tag = ("cyclic" if cyclic else "open-ring") + (
            f"+linear-{case['other']}" if case.get("other") else "") + (
            f"+{around}-of-same-chain" if around else "")
        n_ends = 2
    else:
        raise ValueError(mode)
    r = pipeline.run(text, opts)
    if not r.ok:
        res["events"][f"run-failed:{tag}:{ff}"] = 1
        return res
    viol, events, cells = check_run(
        r, info, ff, opts, tag, n_ends, cyclic,
        extra_ends=1 if (mode == "cyclic" and case.get("other")) else 0)
    res["events"] = events
    res["nontrivial"] = sorted(cells) + [f"case:{tag}:{case.get('x', '')}"]
    seen = set()
    for sig, detail in viol:
        if sig not in seen:
            seen.add(sig)
            res["violations"].append({"sig": sig, "detail": detail})
    return res


NUCLEOTIDES = ["DA", "DC", "DG", "DT", "RA", "RC", "RG", "RU"]


def enumerate_cases(tier, seed):
    cases = []
    for ff in corpus.FFS:
        for x in corpus.INPUT_NAMES:
            for pos in corpus.POSITIONS:
                for opts in ([], ["--noopt", "--nodebump"]):
                    cases.append({"mode": "grid", "ff": ff, "opts": opts,
                                  "desc": {"x": x, "pos": pos,
                                           "waters": [[9.0, 9.0, 9.0]]}})
    for x in corpus.INPUT_NAMES:
        for pos in corpus.POSITIONS:
            for opts in (["--neutraln"], ["--neutralc"],
                         ["--neutraln", "--neutralc"]):
                cases.append({"mode": "grid", "ff": "PARSE", "opts": opts,
                              "desc": {"x": x, "pos": pos}})
    for name in corpus.MIXED:
        for ff in corpus.FFS:
            for opts in ([], ["--noopt", "--nodebump"]):
                cases.append({"mode": "mixed", "ff": ff, "name": name,
                              "opts": opts})
    lay_ffs = ["AMBER", "PARSE"] if tier == "quick" else corpus.FFS
    for ff in lay_ffs:
        for layout in corpus.LAYOUTS:
            for x in T.AMINO:
                cases.append({"mode": "layout", "ff": ff, "layout": layout,
                              "x": x})
        for layout in ("same_id_oxt", "two", "blank_ter", "blank_one_ter"):
            for x in ("ALA", "GLY", "LYS", "ASP"):
                cases.append({"mode": "layout", "ff": ff, "layout": layout,
                              "x": x, "oxt": False})
    for ff in corpus.FFS:
        for naming in ("legacy", "modern"):
            for nt in NUCLEOTIDES:
                other = "DT" if nt[0] == "D" else "RU"
                for seq in ([nt], [nt, other], [other, nt], [other, nt, other]):
                    cases.append({"mode": "strand", "ff": ff, "seq": seq,
                                  "naming": naming})
    # protein + strand + waters in every file order
    for ff in corpus.FFS:
        for order in itertools.permutations("PNW"):
            for seq in (["DA", "DT", "DG"], ["RG", "RU", "RC"]):
                cases.append({"mode": "complex", "ff": ff, "seq": seq,
                              "order": list(order)})
    # different residues at the two ends
    names = corpus.INPUT_NAMES
    if tier == "quick":
        k = seed % len(names)
        pairs = [(x, names[(i + k + 1) % len(names)])
                 for i, x in enumerate(names)]
        pair_ffs = ["AMBER", "PARSE", "CHARMM"]
    else:
        pairs = [(x, y) for x in names for y in names]
        pair_ffs = corpus.FFS
    for ff in pair_ffs:
        for x, y in pairs:
            cases.append({"mode": "ends", "ff": ff, "x": x, "y": y})
    if tier == "quick":
        # hydrogenated first residues (an input amide H must not change the
        # kind of terminus)
        for ff in corpus.FFS:
            for x in corpus.INPUT_NAMES:
                cases.append({"mode": "grid", "ff": ff, "opts": [],
                              "desc": {"x": x, "pos": "n",
                                       "hydrogens": True}})
    if tier != "quick":
        # hydrogenated inputs
        for ff in corpus.FFS:
            for x in corpus.INPUT_NAMES:
                for pos in corpus.POSITIONS:
                    cases.append({"mode": "grid", "ff": ff, "opts": [],
                                  "desc": {"x": x, "pos": pos,
                                           "hydrogens": True}})
    for ff in corpus.FFS:
        for caps in (["ACE", "NME"], ["ACE", "NH2"], ["ACE"], ["NME"],
                     ["NH2"], []):
            for x in ("ALA", "LYS", "ASP", "PRO"):
                cases.append({"mode": "capped", "ff": ff, "caps": caps,
                              "x": x, "opts": []})
    for ff in ("AMBER", "PARSE"):
        for d in (1.20, 1.30, 1.33, 1.346, 1.354, 1.36, 1.40, 1.60):
            cases.append({"mode": "cyclic", "ff": ff, "d": d,
                          "opts": ["--noopt"]})
        for d in (1.33, 1.40):
            for other in ("before", "after"):
                cases.append({"mode": "cyclic", "ff": ff, "d": d,
                              "other": other, "opts": ["--noopt"]})
            for around in ("water", "ion", "ion+water"):
                for opts in (["--noopt"], []):
                    cases.append({"mode": "cyclic", "ff": ff, "d": d,
                                  "around": around, "opts": opts})
    return cases
