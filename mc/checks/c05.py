"""C05 - atoms added by pdb2pqr have template-consistent bonded geometry.

Corpus S3 through the real pipeline with stage-boundary snapshots (after heavy
atom repair, each debump pass, hydrogen addition, optimisation, clean-up and
at the end).  Oracle: every atom that was not in the input lies at the
template bond length from its template parent (0.06 A), at the template bond
angles to the parent's other neighbours (8 degrees), and does not coincide
with another atom of its residue (0.3 A).  Tolerances fixed a priori in
DESIGN.md; built inputs carry zero internal distortion.
"""

import numpy as np

from .. import build, corpus, engine, pipeline, s3
from ..refs import templates as T

PROPERTY = "C05"
LEVEL = "exploration"
RULE = (
    "every case of the S3 blocks listed in bound_completed is executed and "
    "checked at every stage boundary; non-trivial = distinct (residue, chain "
    "position, added atom, stage) combinations whose geometry was measured"
)
ASSUMPTIONS = [
    "continuous geometry is explored on lattices (probe directions, cube "
    "rotations, fixed distances): 'exploration', complete inside the lattice",
    "tolerances 0.06 A / 8 degrees / 0.3 A fixed before the first run; an "
    "added atom may match the template geometry of any canonical variant of "
    "its residue (base, N*/C*/NEUTRAL-*, protonation patches)",
    "temporary optimiser atoms (*FLIP, LP*) are exempt at intermediate "
    "stages; their absence at the end is C03's business",
]
BOUND = {
    "quick": "0 deviations: all 33 input names x 3 positions x 7 option sets "
    "(AMBER) and x 6 force fields (default); 1 deviation: every clash probe, "
    "every omitted atom / truncated side chain (with ballast chain), water "
    "probes at 2.8 A x 14 directions, partner poses for one seed-chosen "
    "partner residue; omitted atom pairs, ideal-slot partner pairs, the "
    "torsion alphabet and the alias-name block of S3 (see C04); nucleic "
    "strands; stage boundaries: repair, debump x2, "
    "add_hydrogens, optimise, cleanup, final",
    "thorough": "quick + water probes at 3.4 A, all 15 partner residues, "
    "2-deviation blocks",
}
TOL_LEN = 0.06
TOL_ANG = 8.0
TOL_COINCIDE = 0.3

_VARIANTS = {}


def variants_of(base):
    """All canonical template variants (coords + bonds) of a base residue."""
    if base in _VARIANTS:
        return _VARIANTS[base]
    _aa, _na, patches, canonical = T.load()
    out = []
    for cname, tmpl in canonical.items():
        core = cname
        for pre in ("NEUTRAL-N", "NEUTRAL-C"):
            if core.startswith(pre):
                core = core[len(pre):]
        if len(core) == 4 and core[0] in "NC" and core[1:] in canonical:
            core = core[1:]
        if len(core) == 3 and core[-1] in "35" and core[:2] in canonical:
            core = core[:2]
        if T.base_of(core) == base or core == base:
            out.append(tmpl)
    # peptide pseudo atoms: add a variant with the PEPTIDE patch
    if base in T.AMINO:
        out.append(T.apply_patch(canonical[base], patches["PEPTIDE"]))
        for st in T.STATE_NAMES.get(base, []):
            out.append(T.apply_patch(canonical[st], patches["PEPTIDE"]))
    _VARIANTS[base] = out
    return out


def check_snapshot(bm, stage, in_keys, by_seq, prev_c, viol, cells):
    """Geometry oracle for one stage boundary."""
    from pdb2pqr import aa, na

    for res in bm.residues:
        inf = by_seq.get(res.res_seq)
        if inf is None:
            continue
        if isinstance(res, aa.Amino):
            base = T.base_of(inf["input"])
            pos = inf["position"]
        elif isinstance(res, aa.WAT):
            base, pos = "WAT", "-"
        elif isinstance(res, na.Nucleic):
            base, pos = inf["input"], inf.get("position", "-")
        else:
            continue
        vars_ = variants_of(base)
        coords = {a.name: np.array([a.x, a.y, a.z]) for a in res.atoms}
        names = list(coords)
        for a in res.atoms:
            if (res.res_seq, a.name) in in_keys:
                continue
            if a.name.endswith("FLIP") or a.name.startswith("LP"):
                continue
            x = coords[a.name]
            # coincidence with another atom of the residue
            for other in names:
                if other == a.name or other.endswith("FLIP") \
                        or other.startswith("LP"):
                    continue
                if np.linalg.norm(coords[other] - x) < TOL_COINCIDE:
                    viol.append((f"C05/{stage}/{base}/{pos}/{a.name}/"
                                 f"coincides-with:{other}", {}))
            cands = [v for v in vars_ if a.name in v.atoms
                     and v.atoms[a.name].bonds]
            if not cands:
                continue
            cells.add(f"{base}:{pos}:{a.name}:{stage}")
            # parent = first template bond
            ok_len = False
            best = None
            parents = []
            for v in cands:
                pname = v.atoms[a.name].bonds[0]
                if pname in ("N+1", "C-1"):
                    continue
                if pname not in coords:
                    continue
                if pname not in v.atoms:
                    continue
                parents.append(pname)
                L = build.dist(v.atoms[a.name].xyz, v.atoms[pname].xyz)
                d = float(np.linalg.norm(x - coords[pname]))
                if best is None or abs(d - L) < abs(best[0] - best[1]):
                    best = (d, L, pname)
                if abs(d - L) <= TOL_LEN:
                    ok_len = True
            if best is None:
                # template parent absent from the residue
                pn = cands[0].atoms[a.name].bonds[0]
                viol.append((f"C05/{stage}/{base}/{pos}/{a.name}/"
                             f"parent-missing:{pn}", {}))
                continue
            if not ok_len:
                viol.append((f"C05/{stage}/{base}/{pos}/{a.name}/"
                             f"bond-length-to:{best[2]}",
                             {"actual": round(best[0], 3),
                              "template": round(best[1], 3)}))
                continue
            pname = best[2]
            p = coords[pname]
            # angles to the parent's other neighbours
            qs = set()
            for v in cands:
                if pname in v.atoms:
                    qs.update(v.atoms[pname].bonds)
            for q in sorted(qs):
                if q == a.name:
                    continue
                if q == "C-1":
                    qxyz = prev_c.get(res.res_seq)
                    if qxyz is None:
                        continue
                elif q == "N+1":
                    continue
                elif q in coords:
                    qxyz = coords[q]
                    if q.endswith("FLIP") or q.startswith("LP"):
                        continue
                else:
                    continue
                actual = build.angle(x, p, qxyz)
                tbest = None
                for v in cands:
                    if pname in v.atoms and q in v.atoms:
                        t = build.angle(v.atoms[a.name].xyz,
                                        v.atoms[pname].xyz, v.atoms[q].xyz)
                        if tbest is None or abs(actual - t) < abs(actual - tbest):
                            tbest = t
                if tbest is None:
                    continue
                if abs(actual - tbest) > TOL_ANG:
                    viol.append((f"C05/{stage}/{base}/{pos}/{a.name}/"
                                 f"bond-angle:{a.name}-{pname}-{q}",
                                 {"actual": round(actual, 2),
                                  "template": round(tbest, 2)}))


def run_case(case):
    from pdb2pqr import biomolecule, debump, hydrogens

    res = {"evals": 1, "violations": [], "events": {}, "nontrivial": []}
    if case.get("kind") == "strand":
        atoms = build.build_strand(case["seq"], naming=case["naming"])
        text = build.pdb_text(atoms)
        n = len(case["seq"])
        info = [{"kind": "na", "input": nm, "res_seq": 1 + i,
                 "position": ("5" if i == 0 else "") + ("3" if i == n - 1 else "")}
                for i, nm in enumerate(case["seq"])]
        in_atoms = atoms
        opts = [f"--ff={case['ff']}"]
    else:
        built = s3.build_case(case)
        if built is None:
            res["events"]["pose-rejected"] = 1
            res["evals"] = 0
            return res
        text, info, in_atoms = built
        opts = list(s3.OPTION_SETS[case["opt"]]) + [f"--ff={case['ff']}"]
    by_seq = {i["res_seq"]: i for i in info}
    in_keys = {(a["res_seq"], a["name"]) for a in in_atoms}
    # OP1/OP2 are alternate names of O1P/O2P
    for a in in_atoms:
        if case.get("kind") == "strand":
            in_keys.add((a["res_seq"],
                         build.strand_canonical_name(a["name"])))
    viol, cells = [], set()
    stages = []
    state = {"bm": None, "n_debump": 0}

    def snap(stage, bm):
        prev_c = {}
        for chain in bm.chains:
            prev = None
            for r_ in chain.residues:
                if prev is not None and prev.has_atom("C") and \
                        getattr(r_, "peptide_c", None) is not None:
                    c = r_.peptide_c
                    prev_c[r_.res_seq] = np.array([c.x, c.y, c.z])
                prev = r_
        stages.append(stage)
        check_snapshot(bm, stage, in_keys, by_seq, prev_c, viol, cells)

    def after_repair(tok, args, kw, result):
        state["bm"] = args[0]
        snap("after-repair", args[0])

    def after_addh(tok, args, kw, result):
        state["bm"] = args[0]
        snap("after-add-hydrogens", args[0])

    def after_debump(tok, args, kw, result):
        state["n_debump"] += 1
        snap(f"after-debump-{state['n_debump']}", args[0].biomolecule)

    def after_opt(tok, args, kw, result):
        snap("after-optimise", args[0].debumper.biomolecule)

    def after_cleanup(tok, args, kw, result):
        snap("after-cleanup", args[0].debumper.biomolecule)

    specs = [
        (biomolecule.Biomolecule, "repair_heavy", {"after": after_repair}),
        (biomolecule.Biomolecule, "add_hydrogens", {"after": after_addh}),
        (debump.Debump, "debump_biomolecule", {"after": after_debump}),
        (hydrogens.HydrogenRoutines, "optimize_hydrogens", {"after": after_opt}),
        (hydrogens.HydrogenRoutines, "cleanup", {"after": after_cleanup}),
    ]
    with pipeline.monitors(specs), s3.torsion_drive(case, info):
        r = pipeline.run(text, opts)
    if not r.ok:
        res["events"][f"run-failed:{r.exc[0]}"] = 1
        return res
    if case.get("opt") not in ("clean", "assign_only"):
        prev_c = {}
        for chain in r.bm.chains:
            for r_ in chain.residues:
                c = getattr(r_, "peptide_c", None)
                if c is not None:
                    prev_c[r_.res_seq] = np.array([c.x, c.y, c.z])
        check_snapshot(r.bm, "final", in_keys, by_seq, prev_c, viol, cells)
        stages.append("final")
    ev = res["events"]
    ev["runs-ok"] = 1
    for s in stages:
        ev[f"stage:{s}"] = ev.get(f"stage:{s}", 0) + 1
    res["nontrivial"] = sorted(cells)
    seen = set()
    for sig, detail in viol:
        if sig not in seen:
            seen.add(sig)
            res["violations"].append({"sig": sig, "detail": detail})
    return res


def enumerate_cases(tier, seed):
    from . import c04

    # real-structure windows carry input distortion: left to C03/C04
    cases = [c for c in c04.enumerate_cases(tier, seed) if "window" not in c and "hood" not in c]
    strands = [(["DA", "DT", "DG", "DC"], "legacy"),
               (["RA", "RU", "RG", "RC"], "legacy"),
               (["DC", "DA"], "modern"), (["RG", "RU"], "modern"),
               (["DT", "DG"], "star"), (["RU", "RA"], "star")]
    for seq, naming in strands:
        for ff in ("AMBER", "CHARMM"):
            cases.append({"kind": "strand", "seq": seq, "naming": naming,
                          "ff": ff})
    return cases
