"""C12 - runs succeed on well-formed input, otherwise fail loudly leaving no
output.

Success side: every residue x chain position x force field (and strands for
the force fields that define nucleic acids, waters) must complete and write a
PQR.  Failure side = fault enumeration: argument classes, input classes and
an injected fault at every pipeline call site x call occurrence {first,
second, last} x exception type, each with the output path absent or
pre-existing (sentinel bytes, old mtime).  Oracle = output-path state machine:
a run that raises leaves absent->absent / old->old (bytes and mtime); whenever
the path is new it is complete and the pipeline had returned.
"""

import os

from .. import build, corpus, engine, pipeline, s3
from ..refs import pqr_ref
from ..refs import templates as T

PROPERTY = "C12"
LEVEL = "fault_enumeration"
RULE = (
    "success grid: 33 input names x 3 positions x 6 force fields + strands + "
    "layouts; failure side: every (argument class), (input class) and "
    "(call site x occurrence x exception type) fault, each x {output absent, "
    "output pre-existing}.  non-trivial = distinct faults that actually "
    "fired (the wrapped call was reached) + distinct failing argument/input "
    "classes + distinct success cells"
)
ASSUMPTIONS = [
    "faults are injected at the entry of a pipeline stage function (the "
    "stage raises instead of running); I/O failures inside the final file "
    "write itself are outside the stages the property lists",
    "a fault that the pipeline legitimately absorbs (the run still produces "
    "a complete, valid PQR) is counted, not flagged",
    "secondary outputs (--pdb-output, --apbs-input) are written after the "
    "PQR; their failure is outside the statement",
]
BOUND = {
    "quick": "complete success grid (+ chains ending in waters/ions of the same chain id); alias spellings (33 input names x topology aliases, water naming pairs, old-style strand names); crowded S3 cases (partner poses, ideal-slot pairs, torsion alphabet); 12 argument classes; 20 input classes (incl. refusals under --clean / --assign-only, waters not counting as structure) + 70 fractional-total classes (14 fractional parts x 5 integer parts); "
    "26 call sites x {1st, 2nd, last} x 4 exception types x 2 output states "
    "on one structure that reaches every site",
    "thorough": "faults additionally on a second structure (strand + ligand "
    "run) and the success grid with --noopt/--nodebump",
}
SENTINEL = b"SENTINEL: previous contents of the output path\n"
OLD = 978307200  # 2001-01-01

EXC = {"ValueError": ValueError, "RuntimeError": RuntimeError,
       "OSError": OSError, "KeyError": KeyError}


def sites():
    from pdb2pqr import biomolecule, debump, forcefield, hydrogens, main
    from pdb2pqr import io as pio

    B = biomolecule.Biomolecule
    H = hydrogens.HydrogenRoutines
    return [
        ("io.get_definitions", pio, "get_definitions"),
        ("io.get_molecule", pio, "get_molecule"),
        ("main.drop_water", main, "drop_water"),
        ("main.setup_molecule", main, "setup_molecule"),
        ("Biomolecule.set_termini", B, "set_termini"),
        ("Biomolecule.update_bonds", B, "update_bonds"),
        ("Forcefield.__init__", forcefield.Forcefield, "__init__"),
        ("hydrogens.create_handler", hydrogens, "create_handler"),
        ("main.is_repairable", main, "is_repairable"),
        ("Biomolecule.repair_heavy", B, "repair_heavy"),
        ("Biomolecule.update_ss_bridges", B, "update_ss_bridges"),
        ("Debump.debump_biomolecule", debump.Debump, "debump_biomolecule"),
        ("Biomolecule.remove_hydrogens", B, "remove_hydrogens"),
        ("main.run_propka", main, "run_propka"),
        ("Biomolecule.apply_pka_values", B, "apply_pka_values"),
        ("Biomolecule.add_hydrogens", B, "add_hydrogens"),
        ("HydrogenRoutines.set_optimizeable_hydrogens", H,
         "set_optimizeable_hydrogens"),
        ("HydrogenRoutines.initialize_full_optimization", H,
         "initialize_full_optimization"),
        ("HydrogenRoutines.optimize_hydrogens", H, "optimize_hydrogens"),
        ("HydrogenRoutines.cleanup", H, "cleanup"),
        ("Biomolecule.set_states", B, "set_states"),
        ("Biomolecule.apply_force_field", B, "apply_force_field"),
        ("main.noninteger_charge", main, "noninteger_charge"),
        ("Biomolecule.apply_name_scheme", B, "apply_name_scheme"),
        ("io.print_pqr_header", pio, "print_pqr_header"),
        ("io.print_biomolecule_atoms", pio, "print_biomolecule_atoms"),
    ]


SITE_NAMES = [
    "io.get_definitions", "io.get_molecule", "main.drop_water",
    "main.setup_molecule", "Biomolecule.set_termini",
    "Biomolecule.update_bonds", "Forcefield.__init__",
    "hydrogens.create_handler", "main.is_repairable",
    "Biomolecule.repair_heavy", "Biomolecule.update_ss_bridges",
    "Debump.debump_biomolecule", "Biomolecule.remove_hydrogens",
    "main.run_propka", "Biomolecule.apply_pka_values",
    "Biomolecule.add_hydrogens",
    "HydrogenRoutines.set_optimizeable_hydrogens",
    "HydrogenRoutines.initialize_full_optimization",
    "HydrogenRoutines.optimize_hydrogens", "HydrogenRoutines.cleanup",
    "Biomolecule.set_states", "Biomolecule.apply_force_field",
    "main.noninteger_charge", "Biomolecule.apply_name_scheme",
    "io.print_pqr_header", "io.print_biomolecule_atoms"]


def fault_structure(which):
    """-> (text, opts, pka rows, files)"""
    if which == "peptide":
        seq = ["ALA", "ASP", "HIS", "LYS", "CYS", "SER"]
        atoms = build.build_peptide(seq, omit={5: {"OG"}})
        atoms += build.build_peptide(["ALA"] * 14, chain="Z", start=301,
                                     origin=(0.0, 40.0, 0.0))
        atoms.append(build.water((9.0, 9.0, 9.0), 100))
        pk = {"ASP": 9.0, "HIS": 9.0, "LYS": 3.0}
        rows = [{"res_num": 1 + i, "ins_code": "", "res_name": n,
                 "chain_id": "A", "group_label": f"{n:<3}{1 + i:>4} A",
                 "group_type": None, "pKa": pk[n], "model_pKa": pk[n],
                 "buried": 0.0, "coupled_group": None}
                for i, n in enumerate(seq) if n in pk]
        opts = ["--ff=PARSE", "--ffout=AMBER", "--drop-water", "--keep-chain",
                "--titration-state-method=propka", "--with-ph=7"]
        return build.pdb_text(atoms), opts, rows, None
    if which == "strand":
        atoms = build.build_strand(["DA", "DT", "DG"])
        atoms += build.build_peptide(["GLY", "TYR", "ASN"], chain="P",
                                     start=50, origin=(0.0, 30.0, 0.0))
        return build.pdb_text(atoms), ["--ff=AMBER", "--include-header"], \
            None, None
    raise ValueError(which)


def out_state(path, pre):
    if not path.exists():
        return "absent"
    data = path.read_bytes()
    if pre and data == SENTINEL and int(path.stat().st_mtime) == OLD:
        return "old"
    if pre and data == SENTINEL:
        return "old-bytes-but-touched"
    return "new"


def run_with(text, opts, rows, files, pre, fault=None):
    """fault = (owner, attr, occurrence (1-based), exception class) or None.
    Returns (result, fired, ncalls, state)."""
    counter = {"n": 0, "fired": False}
    ctxs = []
    if rows is not None:
        ctxs.append(pipeline.inject_pka(rows))
    if fault is not None:
        owner, attr, occ, exc = fault

        def replace(orig, *a, **k):
            counter["n"] += 1
            if occ is not None and counter["n"] == occ:
                counter["fired"] = True
                raise exc(f"injected fault at {attr} call {occ}")
            return orig(*a, **k)
        ctxs.append(pipeline.monitor(owner, attr, replace=replace))
    import contextlib

    with contextlib.ExitStack() as st:
        for c in ctxs:
            st.enter_context(c)
        r = pipeline.run(text, opts, files=files,
                         pre_existing=SENTINEL if pre else None,
                         want_text=False, old_mtime=OLD if pre else None)
    state = out_state(r.out_path, pre)
    return r, counter["fired"], counter["n"], state


def judge(r, state, pre, label, viol):
    """Output-path state machine."""
    if not r.ok:
        want = "old" if pre else "absent"
        if state != want:
            viol.append((f"C12/{label}/output-path-{state}-after-failure"
                         f"/pre={'existing' if pre else 'absent'}",
                         {"exc": r.exc}))
        return
    if state != "new":
        viol.append((f"C12/{label}/success-but-output-{state}", {}))
        return
    text = r.out_path.read_text()
    atoms = pqr_ref.parse(text, whitespace="--whitespace" in r.argv,
                          keep_chain="--keep-chain" in r.argv)
    missed = {id(a) for a in (r.missed or [])}
    if "--clean" in r.argv:
        n = len(r.bm.atoms)
    else:
        n = sum(1 for a in r.bm.atoms if id(a) not in missed)
    if len(atoms) != n or "END" not in text[-8:]:
        viol.append((f"C12/{label}/output-incomplete",
                     {"lines": len(atoms), "atoms": n}))


def run_fault_case(case):
    res = {"evals": 0, "violations": [], "events": {}, "nontrivial": []}
    text, opts, rows, files = fault_structure(case["structure"])
    smap = {n: (o, a) for n, o, a in sites()}
    owner, attr = smap[case["site"]]
    # counting run (no fault) -> number of calls of this site
    r0, _f, ncalls, _s = run_with(text, opts, rows, files, False,
                                  fault=(owner, attr, None, ValueError))
    res["evals"] += 1
    if not r0.ok:
        res["violations"].append({
            "sig": f"C12/fault-base-run-fails/{case['structure']}",
            "detail": {"exc": r0.exc}})
        return res
    res["events"][f"site-calls:{case['site']}={min(ncalls, 9)}"] = 1
    if ncalls == 0:
        res["events"][f"site-not-reached:{case['structure']}:{case['site']}"] = 1
        return res
    occs = sorted({1, min(2, ncalls), ncalls})
    viol = []
    for occ in occs:
        for ename, exc in EXC.items():
            for pre in (False, True):
                r, fired, _n, state = run_with(
                    text, opts, rows, files, pre,
                    fault=(owner, attr, occ, exc))
                res["evals"] += 1
                label = f"fault/{case['site']}"
                if fired:
                    res["nontrivial"].append(
                        f"{case['structure']}:{case['site']}:{occ}:{ename}:{pre}")
                if fired and r.ok:
                    k = f"fault-absorbed:{case['site']}:{ename}"
                    res["events"][k] = res["events"].get(k, 0) + 1
                elif fired:
                    k = f"fault-propagated-as:{r.exc[0]}"
                    res["events"][k] = res["events"].get(k, 0) + 1
                judge(r, state, pre, label, viol)
    seen = set()
    for sig, detail in viol:
        if sig not in seen:
            seen.add(sig)
            res["violations"].append({"sig": sig, "detail": detail})
    return res


# ---------------------------------------------------------------------------
# argument and input classes
# ---------------------------------------------------------------------------
def good_text():
    return build.pdb_text(build.build_peptide(["ALA", "SER", "GLY"]))


ARG_CLASSES = {
    "ph<0": (["--ff=AMBER", "--with-ph=-0.5"], None),
    "ph>14": (["--ff=AMBER", "--with-ph=14.5"], None),
    # values the option parser accepts as floats that are no pH at all
    "ph=nan": (["--ff=AMBER", "--with-ph=nan"], None),
    "ph=inf": (["--ff=AMBER", "--with-ph=inf"], None),
    "ph=nan+propka": (["--ff=AMBER", "--with-ph=nan",
                       "--titration-state-method=propka"], None),
    "neutraln+AMBER": (["--ff=AMBER", "--neutraln"], None),
    "neutralc+CHARMM": (["--ff=CHARMM", "--neutralc"], None),
    "neutraln+TYL06": (["--ff=TYL06", "--neutraln"], None),
    "userff-without-usernames": (["--userff=@u.dat"], "userff"),
    "missing-userff": (["--userff=/dev/shm/verif-no-such.dat",
                        "--usernames=@u.names"], "userff"),
    "missing-usernames": (["--userff=@u.dat",
                           "--usernames=/dev/shm/verif-no-such.names"],
                          "userff"),
    "missing-ligand": (["--ff=AMBER", "--ligand=/dev/shm/verif-no-such.mol2"],
                       None),
    "unknown-ff": (["--ff=NOSUCHFF"], None),
    # secondary outputs that cannot be written
    "pdb-output-in-missing-directory": (
        ["--ff=AMBER", "--pdb-output=/dev/shm/verif-no-such-dir/x.pdb"], None),
    "apbs-input-in-missing-directory": (
        ["--ff=AMBER", "--apbs-input=/dev/shm/verif-no-such-dir/x.in"], None),
}


# total charge = integer part (by the sequence) + delta on the internal
# glycine's CA: every fractional regime on both sides of zero
FRACTION_BASES = {"0": ["GLY", "GLY", "GLY"], "+2": ["LYS", "GLY", "LYS"],
                  "-2": ["ASP", "GLY", "ASP"], "+1": ["GLY", "GLY", "LYS"],
                  "-1": ["ASP", "GLY", "GLY"]}
FRACTION_DELTAS = (0.002, 0.3, 0.49, 0.5, 0.51, 0.7, 0.998,
                   -0.002, -0.3, -0.49, -0.5, -0.51, -0.7, -0.998)


# column after which a coordinate record is cut: inside the serial, after
# it, after the atom name, the residue name, the chain id, the residue
# number, and inside / after x and y (a record cut inside z still has a
# readable, if shortened, z: nothing can tell it from a complete record)
TRUNCATIONS = (8, 11, 16, 20, 22, 26, 30, 34, 38, 42, 46)
_INPUT_CLASSES = None


def input_classes():
    global _INPUT_CLASSES
    if _INPUT_CLASSES is None:
        _INPUT_CLASSES = _input_classes()
    return _INPUT_CLASSES


def _input_classes():
    good = build.build_peptide(["ALA", "SER", "GLY"])
    his = build.build_peptide(["ALA", "HIS", "GLY"])
    many_missing = build.build_peptide(
        ["ARG", "TRP", "LYS"], omit={0: {"CG", "CD", "NE", "CZ", "NH1", "NH2"},
                                     1: {"CG", "CD1", "CD2", "NE1", "CE2",
                                         "CE3", "CZ2", "CZ3", "CH2"},
                                     2: {"CG", "CD", "CE", "NZ"}})
    # N-terminal residue reduced to its OG: nothing to superpose on
    no_backbone = build.build_peptide(
        ["SER", "SER", "GLY"] + ["ALA"] * 12,
        omit={0: {"N", "CA", "C", "O", "CB"}})
    dat = (engine.REPO / "pdb2pqr/dat/AMBER.DAT").read_text().replace(
        "GLY\tCA\t-0.025200", "GLY\tCA\t-0.325200")
    names = (engine.REPO / "pdb2pqr/dat/AMBER.names").read_text()
    frac = {}
    amber = (engine.REPO / "pdb2pqr/dat/AMBER.DAT").read_text()
    for label, seq in FRACTION_BASES.items():
        for delta in FRACTION_DELTAS:
            d2 = amber.replace("GLY\tCA\t-0.025200",
                               f"GLY\tCA\t{-0.0252 + delta:.6f}")
            assert d2 != amber
            frac[f"fractional:{label}:{delta:+.3f}"] = (
                build.pdb_text(build.build_peptide(seq)),
                ["--userff=@u.dat", "--usernames=@u.names"],
                {"u.dat": d2, "u.names": names})
    # waters must not count as structure: the same truncated peptide with
    # many waters, and a file of waters only
    wat = []
    for k in range(12):
        wat.append(build.water((30.0 + 3.1 * (k % 4), 3.1 * (k // 4), 40.0),
                               200 + k))
    trunc = build.build_peptide(
        ["SER", "LEU", "LYS", "PHE", "GLU", "ALA"],
        omit={1: {"CD1", "CD2"}, 2: {"NZ"}, 3: {"CZ", "CE1"}, 4: {"OE1"}})
    shortcut = {}
    for oname, o in (("clean", ["--clean"]),
                     ("assign-only", ["--ff=AMBER", "--assign-only"])):
        # the short cuts must refuse what the full pipeline refuses
        shortcut[f"empty-file:{oname}"] = ("", o, None)
        shortcut[f"header-only:{oname}"] = (
            "HEADER    NOTHING\nREMARK   1\nEND\n", o, None)
        shortcut[f"no-pdb-records:{oname}"] = (
            "this is not a structure file\nat all\n", o, None)
    # coordinate records that end before (or inside) their coordinates:
    # each record kind x every field boundary up to the end of z
    truncated = {}
    wl = build.pdb_text(good + [build.water((9.0, 9.0, 9.0), 200)]) \
        .splitlines()
    for kind, idx in (("ATOM", next(i for i, l in enumerate(wl)
                                    if l.startswith("ATOM") and " SER " in l)),
                      ("HETATM", next(i for i, l in enumerate(wl)
                                      if l.startswith("HETATM")))):
        for cut in TRUNCATIONS:
            for oname, o in (("", ["--ff=AMBER"]), (":clean", ["--clean"])):
                ls = list(wl)
                ls[idx] = ls[idx][:cut]
                truncated[f"truncated-{kind}:{cut}{oname}"] = (
                    "\n".join(ls) + "\n", o, None)
    return {
        **frac,
        **shortcut,
        **truncated,
        "too-many-missing+waters": (build.pdb_text(trunc + wat),
                                    ["--ff=AMBER"], None),
        "too-many-missing-no-waters": (build.pdb_text(trunc), ["--ff=AMBER"],
                                       None),
        "waters-only": (build.pdb_text(wat), ["--ff=AMBER"], None),
        "empty-file": ("", ["--ff=AMBER"], None),
        "header-only": ("HEADER    NOTHING\nREMARK   1\nEND\n", ["--ff=AMBER"],
                        None),
        "unparseable-atom": ("ATOM      1  N   ALA A   1      xx.xxx   0.000"
                             "   0.000\nEND\n", ["--ff=AMBER"], None),
        "unparseable-hetatm": (
            build.pdb_text(good, end=False)
            + "HETATM  900  O   HOH A 900       8.000   8.000   8.000\n"
            + "HETATM  901  O   HOH A 901    ********   9.000   9.000\n"
            + "HETATM  902  O   HOH A 902      10.000  10.000  10.000\nEND\n",
            ["--ff=AMBER"], None),
        "unparseable-resseq": (
            build.pdb_text(good, end=False).replace("ALA A   1", "ALA A  1x")
            + "END\n", ["--ff=AMBER"], None),
        "only-unknown-residues": (
            "HETATM    1 ZN    ZN A   1       0.000   0.000   0.000\nEND\n",
            ["--ff=AMBER"], None),
        "missing-backbone": (build.pdb_text(no_backbone), ["--ff=AMBER"], None),
        "too-many-missing": (build.pdb_text(many_missing), ["--ff=AMBER"],
                             None),
        "fractional-user-charges": (
            build.pdb_text(build.build_peptide(["GLY", "GLY", "GLY"])),
            ["--userff=@u.dat", "--usernames=@u.names"],
            {"u.dat": dat, "u.names": names}),
        "his-without-h-assign-only": (build.pdb_text(his),
                                      ["--ff=AMBER", "--assign-only"], None),
        "good-control": (build.pdb_text(good), ["--ff=AMBER"], None),
    }


def run_class_case(case):
    res = {"evals": 0, "violations": [], "events": {}, "nontrivial": []}
    viol = []
    if case["mode"] == "arg":
        opts, need = ARG_CLASSES[case["name"]]
        files = None
        if need == "userff":
            files = {"u.dat": (engine.REPO / "tests/data/custom-ff.dat").read_text(),
                     "u.names": (engine.REPO / "tests/data/custom.names").read_text()}
        text = good_text()
        expect_fail = True
    else:
        text, opts, files = input_classes()[case["name"]]
        expect_fail = case["name"] != "good-control"
    for pre in (False, True):
        r = pipeline.run(text, opts, files=files,
                         pre_existing=SENTINEL if pre else None,
                         want_text=False, old_mtime=OLD if pre else None)
        res["evals"] += 1
        state = out_state(r.out_path, pre)
        label = f"{case['mode']}/{case['name']}"
        if expect_fail and r.ok:
            viol.append((f"C12/{label}/no-error-raised", {"state": state}))
        if not expect_fail and not r.ok:
            viol.append((f"C12/{label}/control-run-fails", {"exc": r.exc}))
        judge(r, state, pre, label, viol)
        k = f"{label}:{'ok' if r.ok else r.exc[0]}"
        res["events"][k] = res["events"].get(k, 0) + 1
    res["nontrivial"] = [f"{case['mode']}:{case['name']}"]
    seen = set()
    for sig, detail in viol:
        if sig not in seen:
            seen.add(sig)
            res["violations"].append({"sig": sig, "detail": detail})
    return res


# ---------------------------------------------------------------------------
# success side
# ---------------------------------------------------------------------------
def run_success_case(case):
    res = {"evals": 1, "violations": [], "events": {}, "nontrivial": []}
    text_override = None
    ff = case["ff"]
    opts = [f"--ff={ff}"] + list(case.get("opts", []))
    if case["kind"] == "layout":
        atoms, _info, _n = corpus.build_layout(case["layout"], case["x"])
        text_override = corpus.layout_text(case["layout"], atoms)
        label = f"{ff}/layout:{case['layout']}:{case['x']}"
    elif case["kind"] == "mixed":
        atoms, _info = corpus.build_mixed(case["name"])
        label = f"{ff}/mixed:{case['name']}"
    elif case["kind"] == "cyclic":
        from . import c02

        atoms, _info, _d0 = c02.cyclic_atoms(1.33)
        lin = build.build_peptide(["SER", "ILE", "SER"], chain="L", start=101,
                                  origin=(40.0, 0.0, 0.0))
        if case["other"] == "after":
            atoms = atoms + lin
        elif case["other"] == "before":
            for a in atoms:
                a["chain"] = "Z"
            atoms = lin + atoms
        label = f"{ff}/cyclic+linear-{case['other']}"
    elif case["kind"] == "s3":
        from .. import s3

        built = s3.build_case(case["desc"])
        atoms = None
        text_override = built[0]
        d = case["desc"]
        if "hood" in d:
            label = f"{ff}/hood:" + ":".join(map(str, d["hood"]))
        else:
            label = (f"{ff}/{d['x']}@{d['pos']}/"
                     + "+".join(":".join(map(str, e)) for e in d["env"]))
        opts = [f"--ff={ff}"] + list(s3.OPTION_SETS[d["opt"]])
        if d.get("water_h"):
            label += "water-with-only:" + "+".join(d["water_h"])
        if d["opt"] != "default":
            label += f"/opt={d['opt']}"
    elif case["kind"] == "host":
        # one water next to the peptide, one far away from everything
        atoms, _info = corpus.build_host({"x": case["x"], "pos": case["pos"],
                                          "waters": [[9.0, 9.0, 9.0],
                                                     [60.0, -45.0, 70.0]]})
        label = f"{ff}/{case['x']}@{case['pos']}"
        if case.get("water_names"):
            wres, wo = case["water_names"]
            for a in atoms:
                if a["record"] == "HETATM" and a["res_name"] == "HOH":
                    a["res_name"] = wres
                    if a["name"] == "O":
                        a["name"] = wo
            label += f"/water:{wres}:{wo}"
    else:
        atoms = build.build_strand(case["seq"], naming=case["naming"])
        label = f"{ff}/strand:{case['naming']}:{'-'.join(case['seq'])}"
    if case.get("tail"):
        import numpy as np

        cid = atoms[0]["chain"]
        n = max(a["res_seq"] for a in atoms if a["record"] == "ATOM") + 1
        atoms = [a for a in atoms if a["record"] == "ATOM"]
        if "water" in case["tail"]:
            atoms.append(build.water((25.0, 9.0, 9.0), n, chain=cid))
            atoms.append(build.water((25.0, 13.0, 9.0), n + 1, chain=cid))
            n += 2
        if "ion" in case["tail"]:
            atoms.append(build.BAtom(name="ZN", res_name="ZN", chain=cid,
                                     res_seq=n, icode="",
                                     xyz=np.array([30.0, 0.0, 0.0]),
                                     record="HETATM", res_idx=-1))
        label += f"+tail:{case['tail']}"
    if case["kind"] == "s3":
        from .. import s3

        with s3.torsion_drive(case["desc"], built[1]):
            r = pipeline.run(text_override, opts, want_text=False)
    else:
        r = pipeline.run(text_override or build.pdb_text(atoms), opts,
                         want_text=False)
    state = out_state(r.out_path, False)
    viol = []
    if not r.ok:
        msg = str(r.exc_obj.__cause__ or r.exc_obj)
        kind = ("non-integral-charge" if "deviates" in msg else r.exc[0])
        viol.append((f"C12/success/{label}/run-fails:{kind}",
                     {"error": msg[:160]}))
    judge(r, state, False, f"success/{label}", viol)
    res["nontrivial"] = [label]
    res["events"]["success-cell:" + ("ok" if r.ok else "fails")] = 1
    for sig, detail in viol:
        res["violations"].append({"sig": sig, "detail": detail})
    return res


def run_case(case):
    if case["mode"] == "fault":
        return run_fault_case(case)
    if case["mode"] in ("arg", "input"):
        return run_class_case(case)
    return run_success_case(case)


def enumerate_cases(tier, seed):
    cases = []
    for name in ARG_CLASSES:
        cases.append({"mode": "arg", "name": name})
    for name in ["empty-file", "header-only", "unparseable-atom",
                 "unparseable-hetatm", "unparseable-resseq",
                 "only-unknown-residues", "missing-backbone",
                 "too-many-missing", "fractional-user-charges",
                 "his-without-h-assign-only", "good-control",
                 "too-many-missing+waters", "too-many-missing-no-waters",
                 "waters-only"]:
        cases.append({"mode": "input", "name": name})
    for kind in ("ATOM", "HETATM"):
        for cut in TRUNCATIONS:
            for oname in ("", ":clean"):
                cases.append({"mode": "input",
                              "name": f"truncated-{kind}:{cut}{oname}"})
    for oname in ("clean", "assign-only"):
        for base in ("empty-file", "header-only", "no-pdb-records"):
            cases.append({"mode": "input", "name": f"{base}:{oname}"})
    for label in FRACTION_BASES:
        for delta in FRACTION_DELTAS:
            cases.append({"mode": "input",
                          "name": f"fractional:{label}:{delta:+.3f}"})
    structures = ["peptide"] + (["strand"] if tier == "thorough" else [])
    for st in structures:
        for site in SITE_NAMES:
            cases.append({"mode": "fault", "structure": st, "site": site})
    for ff in corpus.FFS:
        for x in corpus.INPUT_NAMES:
            for pos in corpus.POSITIONS:
                cases.append({"mode": "success", "kind": "host", "ff": ff,
                              "x": x, "pos": pos})
    strands = []
    for naming in ("legacy", "modern"):
        for nt in ["DA", "DC", "DG", "DT", "RA", "RC", "RG", "RU"]:
            other = "DT" if nt[0] == "D" else "RU"
            strands += [([nt, other], naming), ([other, nt, other], naming)]
    for ff in corpus.NUCLEIC_FFS:
        for seq, naming in strands:
            cases.append({"mode": "success", "kind": "strand", "ff": ff,
                          "seq": seq, "naming": naming})
        # chains that end in waters / an ion carrying the same chain id
        for seq in (["DA", "DC", "DG"], ["RG", "RC", "RA"]):
            for tail in ("water", "ion", "water+ion"):
                cases.append({"mode": "success", "kind": "strand", "ff": ff,
                              "seq": seq, "naming": "legacy", "tail": tail})
    # alternative atom / residue spellings of the topology files
    from .. import s3

    for d in s3.alias_cases(ffs=("AMBER",) if tier == "quick"
                            else ("AMBER", "PARSE", "CHARMM"),
                            names=corpus.INPUT_NAMES):
        cases.append({"mode": "success", "kind": "s3", "ff": d["ff"],
                      "desc": d})
    # crowded polar surroundings (every branch of the hydrogen-bond
    # optimiser must end in a result): hydroxyl hosts next to donor /
    # acceptor / hydroxyl partners, ideal-slot partner pairs, the torsion
    # alphabet
    for d in (s3.partner_cases("AMBER", ["LYS", "ASP", "SER", "THR", "TYR"],
                               hosts=["SER", "THR", "TYR"],
                               rots=range(0, 24, 2))
              + s3.tetra_partner_cases("AMBER")
              + s3.water_h_cases("AMBER")
              + s3.torsion_cases("AMBER")):
        if s3.build_case(d) is not None:
            cases.append({"mode": "success", "kind": "s3", "ff": d["ff"],
                          "desc": d})
    # complete fragments of the bundled structures: the spatial
    # neighbourhood of every residue, each fragment closed with its OXT
    for ff in (("AMBER",) if tier == "quick" else ("AMBER", "PARSE",
                                                   "CHARMM")):
        for d in s3.hood_cases(ff, ["1AJJ.pdb", "1BX8.pdb", "cterm_hid.pdb"]
                               if tier == "quick" else None, oxt=True,
                               complete_only=True):
            cases.append({"mode": "success", "kind": "s3", "ff": ff,
                          "desc": d})
    for ff in corpus.FFS:
        for wn in (("HOH", "OW"), ("HOH", "OH2"), ("WAT", "O"),
                   ("WAT", "OW"), ("WAT", "OH2")):
            for opts in ([], ["--noopt"]):
                cases.append({"mode": "success", "kind": "host", "ff": ff,
                              "x": "SER", "pos": "mid", "water_names": wn,
                              "opts": opts})
    for ff in corpus.NUCLEIC_FFS:
        for seq in (["DA", "DT", "DG", "DC"], ["RA", "RU", "RG", "RC"]):
            cases.append({"mode": "success", "kind": "strand", "ff": ff,
                          "seq": seq, "naming": "star"})
    # chain layouts, ring + linear chain, multi-instance structures
    for ff in ("AMBER", "PARSE"):
        for layout in corpus.LAYOUTS:
            for x in ("ALA", "SER", "LYS", "CYS"):
                cases.append({"mode": "success", "kind": "layout", "ff": ff,
                              "layout": layout, "x": x})
        for other in ("none", "before", "after"):
            cases.append({"mode": "success", "kind": "cyclic", "ff": ff,
                          "other": other, "opts": ["--noopt"]})
    for ff in corpus.FFS:
        for name in ("all20x2", "ends"):
            cases.append({"mode": "success", "kind": "mixed", "ff": ff,
                          "name": name})
    for ff in corpus.FFS:
        for x in ("ALA", "LYS", "ASP", "PRO"):
            for tail in ("water", "ion", "water+ion"):
                cases.append({"mode": "success", "kind": "host", "ff": ff,
                              "x": x, "pos": "c", "tail": tail})
    return cases
