"""C03 - no atom is silently lost, duplicated or invented.

Corpus S3 (+ nucleic strands, unknown extra atoms, input hydrogens) through
the real pipeline.  Monitors around every Optimize method record the observed
automaton of the optimiser's temporary-atom bookkeeping (node = optimisation
class + temporary atoms present, edge = method/outcome); invariants are checked
on the final model:
 (i)   every input heavy atom of a recognised residue is present exactly once
       unless a "Deleted this atom" warning names it (or it belongs to the
       5'-terminal phosphate);
 (ii)  model atoms = PQR atoms (+) reported unassigned atoms, no duplicates;
 (iii) each fully parameterised residue carries exactly the atom set of its
       state's topology; no *FLIP / LP / doubled carboxylic names anywhere.
"""

import re

from .. import build, corpus, engine, pipeline, s3
from ..refs import pqr_ref
from ..refs import templates as T

PROPERTY = "C03"
LEVEL = "model_checking"
RULE = (
    "every case of the S3 blocks in bound_completed is executed; states/"
    "transitions = nodes/edges of the observed optimiser bookkeeping "
    "automaton (optimisation class, temporary atoms present) x (method, "
    "outcome); non-trivial = distinct cases in which the optimiser created, "
    "renamed or removed at least one temporary atom, a heavy atom was "
    "rebuilt or deleted, or an atom went unassigned"
)
ASSUMPTIONS = [
    "environments are lattice poses of <=2 neighbours around one residue; "
    "long hydrogen-bond networks are only reached through real-structure "
    "windows (thorough)",
    "the expected atom set of a state is template + patches parsed "
    "independently from AA.xml/NA.xml/PATCHES.xml",
    "OP1/OP2 are accepted as the modern spelling of O1P/O2P",
]
BOUND = {
    "quick": "0 deviations: 33 input names x 3 positions x 7 option sets "
    "(AMBER), x 6 force fields (default) and PARSE with input hydrogens; 1 "
    "deviation: every clash probe, omitted atom / truncated side chain, "
    "unknown extra atom, water probe (2.8 A x 14 directions), partner poses "
    "for one seed-chosen partner; 2 deviations: extra atom + omitted atom, "
    "omitted atom pairs, partner pairs on the ideal tetrahedral slots of a "
    "hydroxyl (two donors: both lone-pair placeholders in use); the torsion "
    "alphabet, the alias-name, alternate-location and shifted blocks of S3 "
    "(see C04); peptide + MOL2 ligand + hetero groups sharing atom names "
    "(written-or-reported oracle); "
    "nucleic strands x naming x force fields; 18 chain layouts x 4 residue "
    "types x {--clean, --nodebump --noopt} (global conservation oracle)",
    "thorough": "quick + water probes 3.4 A, all 15 partners, water+water, "
    "omitted atom+water, all 3-residue windows of the bundled structures",
}

TEMP_RE = re.compile(r"(FLIP$|^LP\d?$|^H[DE][12][12]$|^HO?[12]?FLIP)")
OPT_METHODS = ["try_both", "try_donor", "try_acceptor", "finalize", "complete",
               "fix_flip", "fix", "rename"]

ALLOWED_STATES = corpus.ALLOWED_STATES


def canon(name):
    return build.strand_canonical_name(name)


def temporaries(residue):
    out = []
    for a in residue.atoms:
        if a.name.endswith("FLIP") or re.match(r"^LP\d?$", a.name):
            out.append(a.name)
    # doubled carboxylic hydrogens (HD11/HD12, HE11/HE12 ...)
    for a in residue.atoms:
        if re.match(r"^H[DE][12][12]$", a.name) and residue.name in (
                "ASP", "ASH", "GLU", "GLH"):
            out.append(a.name)
    return tuple(sorted(out))


def run_case(case):
    from pdb2pqr import aa, na
    from pdb2pqr.hydrogens import structures as hs

    res = {"evals": 1, "violations": [], "events": {}, "nontrivial": None}
    if case.get("kind") == "layout":
        atoms, info, _n = corpus.build_layout(case["layout"], case["x"])
        text = corpus.layout_text(case["layout"], atoms)
        # res_seq is not unique across chains in some layouts: key the
        # harness knowledge by (res_seq, icode) of the FIRST occurrence only
        in_atoms = atoms
        opts = list(s3.OPTION_SETS[case.get("opt", "default")]) + [f"--ff={case['ff']}"]
    elif case.get("kind") == "strand":
        atoms = build.build_strand(case["seq"], naming=case["naming"])
        if case.get("head_ion"):
            # an ion carrying the strand's chain id, listed before it
            import numpy as np

            atoms.insert(0, build.BAtom(
                name="MG", res_name="MG", chain=atoms[0]["chain"], res_seq=0,
                icode="", xyz=np.array([25.0, 25.0, 25.0]), record="HETATM",
                res_idx=-1))
        text = build.pdb_text(atoms)
        n = len(case["seq"])
        info = [{"kind": "na", "input": nm, "res_seq": 1 + i,
                 "state": nm + ("5" if i == 0 else "") + ("3" if i == n - 1 else "")}
                for i, nm in enumerate(case["seq"])]
        in_atoms = atoms
        opts = list(s3.OPTION_SETS[case.get("opt", "default")]) + [f"--ff={case['ff']}"]
    elif case.get("kind") == "complex":
        # peptide + MOL2 ligand + other hetero groups, some sharing atom
        # names with the ligand (builders of C16)
        from . import c16

        mol = c16.load_mol(c16.COMPLEX_LIGANDS[case["ligand"]])
        names = c16.make_names(mol, case["naming"])
        text = c16.complex_pdb(mol, names, case["extras"])
        files = {"lig.mol2": c16.write_mol2(
            mol, tuple(range(mol.n)), names,
            "asis" if mol.orig_names else "sorted")}
        info, in_atoms = [], []
        opts = [f"--ff={case['ff']}", "--ligand=@lig.mol2"]
    else:
        built = s3.build_case(case)
        if built is None:
            res["events"]["pose-rejected"] = 1
            res["evals"] = 0
            return res
        text, info, in_atoms = built
        opts = list(s3.OPTION_SETS[case["opt"]]) + [f"--ff={case['ff']}"]
    if case.get("kind") != "complex":
        files = None
    optname = case.get("opt", "default")
    by_seq = {i["res_seq"]: i for i in info}
    viol = []
    nodes, edges = set(), set()
    bookkeeping = [0]

    def mk(cls, meth):
        def before(args, kwargs):
            self_ = args[0]
            return (type(self_).__name__, temporaries(self_.residue))

        def after(token, args, kwargs, result):
            self_ = args[0]
            cname, tb = token
            ta = temporaries(self_.residue)
            outcome = result if isinstance(result, (bool, int)) or result is None else "obj"
            n1 = (cname, tb)
            n2 = (cname, ta)
            nodes.add(n1)
            nodes.add(n2)
            edges.add((n1, meth, str(outcome), n2))
            if tb != ta:
                bookkeeping[0] += 1
            if meth == "complete" and ta:
                viol.append((f"C03/optimiser/{cname}/complete-leaves-"
                             f"temporaries:{','.join(ta)}",
                             {"residue": str(self_.residue)}))
        return {"before": before, "after": after}

    specs = []
    for cname in ("Flip", "Alcoholic", "Water", "Carboxylic", "Generic"):
        cls = getattr(hs, cname)
        for meth in OPT_METHODS:
            if meth in cls.__dict__:
                specs.append((cls, meth, mk(cls, meth)))
    with pipeline.monitors(specs), s3.torsion_drive(case, info):
        r = pipeline.run(text, opts, files=files)
    ev = res["events"]
    if not r.ok:
        ev[f"run-failed:{r.exc[0]}"] = 1
        return res
    ev["runs-ok"] = 1
    if case.get("kind") == "complex":
        # every atom of the final model is written or reported
        tag = "complex:" + "+".join(case["extras"] or ["none"])
        missed_ids = {id(a) for a in (r.missed or [])}
        written = {}
        for a in pqr_ref.parse(r.pqr_text, keep_chain=False):
            k = (a["name"], a["res_seq"], a["xs"].strip(), a["ys"].strip())
            written[k] = written.get(k, 0) + 1
        for a in r.bm.atoms:
            k = (a.name, a.res_seq, f"{a.x:.3f}", f"{a.y:.3f}")
            if not written.get(k) and id(a) not in missed_ids:
                viol.append((f"C03/{tag}/atom-neither-written-nor-reported/"
                             f"{a.res_name}", {"atom": a.name,
                                               "res_seq": a.res_seq}))
            if written.get(k, 0) > 1:
                viol.append((f"C03/{tag}/atom-written-twice/{a.res_name}",
                             {"atom": a.name, "res_seq": a.res_seq}))
        res["nontrivial"] = engine._h(case)
        seen = set()
        for sig, detail in viol:
            if sig not in seen:
                seen.add(sig)
                res["violations"].append({"sig": sig, "detail": detail})
        return res
    if case.get("kind") == "layout":
        # chain layouts: residue numbers repeat across chains, so the oracle
        # is global: with --clean / --nodebump --noopt coordinates are exact,
        # every input heavy atom must occur exactly once in the model and the
        # model must equal written (+) unassigned
        tag = f"layout:{case['layout']}/opt={optname}"
        cnt = {}
        for a in r.bm.atoms:
            k = (a.name, round(a.x, 3), round(a.y, 3), round(a.z, 3))
            cnt[k] = cnt.get(k, 0) + 1
        for a in in_atoms:
            if a["name"].startswith("H") or a["record"] != "ATOM":
                continue
            x, y, z = (round(float(v), 3) for v in a["xyz"])
            n = cnt.get((a["name"], x, y, z), 0)
            if n != 1:
                what = "lost" if n == 0 else "duplicated"
                viol.append((f"C03/{tag}/input-heavy-atom-{what}",
                             {"atom": a["name"], "res_seq": a["res_seq"],
                              "icode": a["icode"], "n": n}))
        pqr = pqr_ref.parse(r.pqr_text, keep_chain=False)
        if optname == "clean":
            n_model = len(r.bm.atoms)
        else:
            missed_ids = {id(a) for a in (r.missed or [])}
            n_model = sum(1 for a in r.bm.atoms if id(a) not in missed_ids)
        if n_model != len(pqr):
            viol.append((f"C03/{tag}/written+unassigned!=model",
                         {"pqr": len(pqr), "model_written": n_model,
                          "model": len(r.bm.atoms)}))
        n_in = sum(1 for a in in_atoms if not a["name"].startswith("H"))
        if optname == "clean" and len(pqr) != n_in:
            viol.append((f"C03/{tag}/clean-output-atom-count",
                         {"pqr": len(pqr), "input_heavy": n_in}))
        res["nontrivial"] = engine._h(case)
        seen = set()
        for sig, detail in viol:
            if sig not in seen:
                seen.add(sig)
                res["violations"].append({"sig": sig, "detail": detail})
        return res
    # ---- (i) input heavy atoms ----------------------------------------------
    deleted = set()
    pending = None
    for _lvl, _nm, msg in r.warnings:
        m = re.match(r"Extra atom (\S+) in (\S+) (\S*) ?(-?\d+)", msg)
        if m:
            pending = (int(m.group(4)), m.group(1))
        elif msg.startswith("Deleted this atom") and pending:
            deleted.add(pending)
            pending = None
    final_count = {}
    for a in r.bm.atoms:
        k = (a.res_seq, canon(a.name))
        final_count[k] = final_count.get(k, 0) + 1
    dropw = optname == "drop_water"
    interesting = False
    for a in in_atoms:
        nm = a["name"]
        if nm.startswith("H"):
            continue
        inf = by_seq.get(a["res_seq"])
        if inf is None:
            continue
        if inf["kind"] == "wat" and dropw:
            if final_count.get((a["res_seq"], nm), 0):
                viol.append(("C03/drop-water/water-kept", {}))
            continue
        if inf["kind"] not in ("aa", "na", "wat"):
            continue
        k = (a["res_seq"], canon(nm))
        n = final_count.get(k, 0)
        if n == 1:
            continue
        base = T.base_of(inf["input"])
        if n == 0:
            if k in deleted or (a["res_seq"], nm) in deleted:
                ev["deleted-with-warning"] = ev.get("deleted-with-warning", 0) + 1
                interesting = True
                continue
            if inf["kind"] == "na" and inf["state"].endswith(("5", "53")) \
                    and canon(nm) in ("P", "O1P", "O2P"):
                ev["5prime-phosphate-removed"] = ev.get("5prime-phosphate-removed", 0) + 1
                continue
            viol.append((f"C03/input-heavy-atom-lost/{base}/"
                         f"{inf.get('position', '-')}/{nm}/opt={optname}", {}))
        else:
            viol.append((f"C03/input-heavy-atom-duplicated/{base}/{nm}", {"n": n}))
    # ---- (ii) partition into written / unassigned ---------------------------
    ws = "--whitespace" in opts
    pqr = pqr_ref.parse(r.pqr_text, whitespace=ws, keep_chain=False)
    if optname == "clean":
        if len(pqr) != len(r.bm.atoms):
            viol.append(("C03/clean/pqr-atom-count",
                         {"pqr": len(pqr), "model": len(r.bm.atoms)}))
    else:
        missed_ids = [id(a) for a in (r.missed or [])]
        if len(set(missed_ids)) != len(missed_ids):
            viol.append(("C03/unassigned-list-has-duplicates", {}))
        model_ids = {id(a) for a in r.bm.atoms}
        if not set(missed_ids) <= model_ids:
            viol.append(("C03/unassigned-atom-not-in-model", {}))
        written = [a for a in r.bm.atoms if id(a) not in set(missed_ids)]
        if len(written) != len(pqr):
            viol.append(("C03/partition/written+unassigned!=model",
                         {"pqr": len(pqr), "unassigned": len(missed_ids),
                          "model": len(r.bm.atoms)}))
        else:
            for a, line in zip(written, pqr):
                if line["name"] != a.name or line["res_seq"] != a.res_seq:
                    viol.append(("C03/partition/pqr-order-differs-from-model",
                                 {"line": line["name"], "atom": a.name}))
                    break
        dup = {}
        for line in pqr:
            k = (line["res_seq"], line["icode"], line["res_name"], line["name"])
            dup[k] = dup.get(k, 0) + 1
        for k, n in dup.items():
            if n > 1:
                viol.append((f"C03/duplicate-name-in-pqr/{k[2]}/{k[3]}", {"n": n}))
        if missed_ids:
            ev["runs-with-unassigned-atoms"] = 1
            interesting = True
    # ---- (iii) exact atom sets, no temporaries ------------------------------
    missed_set = {id(a) for a in (r.missed or [])}
    for resd in r.bm.residues:
        names = [a.name for a in resd.atoms]
        for nm in names:
            if nm.endswith("FLIP") or re.match(r"^LP\d?$", nm):
                viol.append((f"C03/temporary-atom-in-final-model/"
                             f"{resd.name}/{nm}", {}))
        if optname in ("assign_only", "clean"):
            continue
        # a protonated acid carries ONE proton; the second candidate
        # position of the topology is a placeholder of the optimiser
        for pair in (("HD1", "HD2"), ("HE1", "HE2")):
            if resd.name in ("ASP", "ASH", "GLU", "GLH") and \
                    pair[0] in names and pair[1] in names:
                viol.append((f"C03/placeholder-proton-in-final-model/"
                             f"{T.base_of(resd.name)}/{pair[0]}+{pair[1]}"
                             f"/opt={optname}", {"residue": str(resd)}))
        inf = by_seq.get(resd.res_seq)
        if inf is None:
            continue
        if any(id(a) in missed_set for a in resd.atoms):
            continue
        if isinstance(resd, aa.Amino):
            if any(dev[0] == "extra" for dev in case.get("env", [])) \
                    and inf.get("target"):
                pass
            state = corpus.state_ref(inf["input"], inf["position"], names,
                                     neutraln="--neutraln" in opts,
                                     neutralc="--neutralc" in opts)
            core = state[-3:]
            allowed = ALLOWED_STATES.get(inf["input"],
                                         {T.base_of(inf["input"])
                                          if inf["input"] in T.AMINO
                                          else inf["input"]})
            if core not in allowed:
                viol.append((f"C03/state/{inf['input']}/{inf['position']}/"
                             f"ended-as:{core}", {"names": sorted(names)}))
                continue
            want = set(corpus.expected_atoms(state))
            # PRO at the N-terminus carries the neutral-terminus hydrogens
            if state == "NPRO":
                want = set(names) & want | (want - {"H3"})
        elif isinstance(resd, na.Nucleic):
            _aa, _na, _p, canonical = T.load()
            st = inf["state"]
            if st not in canonical:
                continue
            want = {a for a in canonical[st].atoms}
        elif isinstance(resd, aa.WAT):
            want = {"O", "H1", "H2"}
        else:
            continue
        got = {canon(n) for n in names}
        if got != want or len(got) != len(names):
            missing = sorted(want - got)
            extra = sorted(got - want)
            dupn = sorted({n for n in names if names.count(n) > 1})
            kind = (("missing:" + ",".join(missing) + ";") if missing else "") \
                + (("extra:" + ",".join(extra) + ";") if extra else "") \
                + (("dup:" + ",".join(dupn)) if dupn else "")
            label = inf["input"] + "/" + str(inf.get("position", "-"))
            viol.append((f"C03/atom-set/{label}/{kind}/opt={optname}",
                         {"residue": str(resd)}))
    # ---- evidence -----------------------------------------------------------
    if bookkeeping[0]:
        ev["runs-with-temporary-atom-bookkeeping"] = 1
        interesting = True
    for n1, meth, outcome, n2 in edges:
        k = f"edge:{n1[0]}.{meth}={outcome}:{'+'.join(n1[1]) or '-'}>{'+'.join(n2[1]) or '-'}"
        ev[k] = ev.get(k, 0) + 1
    for n in nodes:
        k = f"node:{n[0]}:{'+'.join(n[1]) or '-'}"
        ev[k] = ev.get(k, 0) + 1
    if r.warned("Added atom") or any(d[0] == "omit" for d in case.get("env", [])):
        interesting = True
    if interesting:
        res["nontrivial"] = engine._h(case)
    seen = set()
    for sig, detail in viol:
        if sig not in seen:
            seen.add(sig)
            res["violations"].append({"sig": sig, "detail": detail})
    return res


def finish(ctx):
    nodes = [k for k in ctx.events if k.startswith("node:")]
    edges = [k for k in ctx.events if k.startswith("edge:")]
    ctx.states = len(nodes)
    ctx.transitions = len(edges)
    ctx.extra["automaton"] = {
        "states": len(nodes), "transitions": len(edges),
        "note": "observed automaton of the optimiser's temporary-atom "
                "bookkeeping over all executions of this run",
    }
    want = ["Flip.complete", "Flip.fix_flip", "Alcoholic.complete",
            "Alcoholic.try_both", "Alcoholic.try_donor",
            "Alcoholic.try_acceptor", "Water.complete", "Water.finalize",
            "Water.try_acceptor", "Water.try_donor", "Carboxylic.complete",
            "Carboxylic.try_acceptor", "Flip.try_donor", "Flip.try_acceptor"]
    seen = {k.split(":")[1].split("=")[0] for k in edges}
    ctx.extra["coverage_whitelist_missing"] = sorted(set(want) - seen)


def enumerate_cases(tier, seed):
    from . import c04

    cases = [c for c in c04.enumerate_cases(tier, seed)
             if sum(1 for d in c.get("env", []) if d[0] == "clash") < 2]
    cases += s3.extra_cases("AMBER")
    # fixed block (any seed): alcoholic hosts next to a donor, an acceptor and
    # another alcoholic group, so that lone-pair creation/removal and the
    # try_both undo paths are exercised in every quick run
    cases += s3.partner_cases("AMBER", ["LYS", "ASP", "SER"],
                              hosts=["SER", "THR", "TYR"],
                              rots=range(0, 24, 2))
    for x in T.AMINO:
        sc = s3.sidechain_heavy(x, "mid")
        if not sc:
            continue
        for pos in corpus.POSITIONS:
            cases.append({"x": x, "pos": pos, "ff": "AMBER", "opt": "default",
                          "env": [["extra", "CX9"], ["omit", [sc[-1]]]]})
    for layout in corpus.LAYOUTS:
        for x in ("ALA", "SER", "LYS", "PRO"):
            for opt in ("clean", "nodebump_noopt"):
                cases.append({"kind": "layout", "layout": layout, "x": x,
                              "ff": "AMBER", "opt": opt})
    for extras in ([], ["XYZ"], ["XYQ"], ["W1", "XYZ", "XYQ", "ZN"]):
        for lig in ("methanol", "acetate", "ethanol.mol2"):
            for naming in ("elem-index", "water-like"):
                for ff in ("AMBER", "PARSE"):
                    cases.append({"kind": "complex", "ligand": lig,
                                  "naming": naming, "extras": extras,
                                  "ff": ff, "env": []})
    strands = [(["DA", "DT", "DG", "DC"], "legacy"),
               (["RA", "RU", "RG", "RC"], "legacy"),
               (["DC", "DA", "DT"], "modern"), (["RG", "RU", "RC"], "modern"),
               (["RC", "RG"], "short"), (["DT", "DA", "DC"], "star"),
               (["RU", "RG", "RA"], "star")]
    for seq, naming in strands:
        for ff in ("AMBER", "CHARMM", "TYL06", "PARSE"):
            for opt in ("default", "nodebump_noopt"):
                cases.append({"kind": "strand", "seq": seq, "naming": naming,
                              "ff": ff, "opt": opt})
    for seq in (["DA", "DT", "DG", "DC"], ["RA", "RU", "RG"]):
        for opt in ("default", "nodebump_noopt"):
            cases.append({"kind": "strand", "seq": seq, "naming": "legacy",
                          "ff": "AMBER", "opt": opt, "head_ion": True})
    return cases
