"""C17 - the suggested APBS grid encloses the molecule and is multigrid-legal.

Bounded exhaustive exploration of the real ``pdb2pqr.psize.Psize`` (parse_lines
/ parse_string / parse_input + set_all + __str__), ``io.dump_apbs`` /
``inputgen.Input`` and the ``--apbs-input`` command line path.

Atom sets are built on an integer lattice (milli-Angstrom coordinates, 1e-4 A
radii) so that the oracle - the arithmetic of the property itself - is exact
and never parses the text the implementation reads:

* hull  lo = min(c - r), hi = max(c + r) per axis,
* centre = (lo + hi) / 2; the fine and the coarse box, centred where the
  implementation says the centre is, contain [lo, hi]; fine <= coarse,
* every grid count (whole grid and per-processor grid) is n = 32 k + 1 >= 33,
* the report (str) succeeds and every memory figure in it equals
  200 * nx * ny * nz / 2**20 MB of the grid the same report prints, which is
  the grid held in the attributes,
* lines that are not ATOM/HETATM records leave every attribute and the report
  unchanged,
* the APBS input names the PQR file's basename and carries the grid counts and
  box lengths of a sizing of that file.
"""

import itertools
import os
import re
from collections import Counter

from .. import engine

PROPERTY = "C17"
LEVEL = "exploration"
RULE = (
    "geometry: every ordered atom tuple of the stated family on the lattice "
    "{-1,0,1}^3 (n=1: 27 sites; n=2: all 729 ordered pairs, quick = the 53 "
    "pairs containing the lattice origin; n=3: the 378 multisets {origin,b,c} "
    "in cyclic file orders) x every radius tuple from {0,1,2.5} x 6 lattice "
    "scales {0.1,1,30,100,400,2000} x 4 offset vectors {0,+500,-500,"
    "(+500,-500,0)} x 4 layouts {fixed columns, pdb2pqr --whitespace, "
    "single-blank whitespace, fixed columns with five-digit serials} x a set of (cfac, fadd, space) settings; "
    "records: every ATOM/HETATM pattern for n<=2; headers: every program of "
    "<=2 inserted non-atom lines (16 kinds, every gap, both orders; END only "
    "after the last atom) on 3 base files x scale x offset x layout, read "
    "through parse_string, parse_input and CRLF files; bulk: m^3-atom cubic "
    "lattices; bundled: every PQR file shipped in tests/data with and "
    "without its non-atom lines; dump: io.dump_apbs on harness-written "
    "files; e2e: pdb2pqr --apbs-input on built peptides.  distinct/"
    "non-trivial = distinct (layout class, sizing parameters, grid-count "
    "vector, per-axis fine-box-clipped flags, sequential/parallel/raising "
    "report) outcomes of geometry cases + distinct (base, placement, "
    "inserted kinds, gaps) header programs + distinct bulk / bundled / dump / "
    "e2e inputs"
)
ASSUMPTIONS = [
    "a fixed-column case is generated only if every numeric field fits its "
    "PDB column width (coordinates -999.999..9999.999); the 'ws' layout is "
    "pdb2pqr's own --whitespace layout (fields keep their widths, blanks "
    "inserted), 'compact' is the single-blank whitespace-delimited form of "
    "docs/source/formats/pqr.rst",
    "box containment and centring are compared with tolerance 1e-6 A "
    "(+1e-9 relative); box lengths printed with 4 decimals in the APBS "
    "input are compared with tolerance 1e-4 A; memory figures printed with "
    "3 decimals are compared with tolerance 0.00051 MB",
    "cfac, fadd, space and the memory ceiling gmemceil are varied; gmemfac, "
    "ofrac and redfac stay at their defaults (the property's memory figure "
    "is the 200 bytes/point estimate); below 6.854 MB no legal "
    "per-processor grid exists and a refusal (ValueError) is the right "
    "answer",
    "the per-processor grid (nsmall) of a parallel suggestion counts as a "
    "grid dimension (APBS puts it into dime for mg-para): it must be "
    "numerically 32k+1 >= 33; integer-ness of the Python type is not "
    "demanded anywhere",
    "an END record is only inserted after the last atom (atoms after END "
    "are not claimed to belong to the structure); all other non-atom lines "
    "are inserted at every gap",
    "a structure without ATOM records (HETATM only) gets no memory estimate "
    "from the report; that is counted, not flagged",
    "total charge and atom counts are part of 'the result' only for the "
    "header-line clause (every attribute and the report must be "
    "unchanged); doubled counts inside dump_apbs (the file is read twice) "
    "are counted as an event because no checked quantity depends on them",
    "runs of the full program that fail before io.dump_apbs is entered "
    "belong to other properties and are only counted",
]
BOUND = {
    "quick": "n=1 x 10 one-at-a-time parameter settings (cfac, fadd, space, "
    "memory ceiling); n=2 (53 origin pairs) x 10 settings; n=3 (378 multisets, one of the 27 (file order, "
    "first radius, second radius) blocks chosen by the seed) x defaults; ATOM/HETATM "
    "patterns for n<=2; all <=2-line header programs on 3 bases x scales "
    "{1,100} x 4 offsets x 4 layouts (+ file / CRLF door at scale 1); bulk "
    "lattices up to 8000 atoms; all 49 bundled PQR files; dump_apbs on 10 "
    "geometries x 3 header sets x 96 placements; 48 end-to-end runs",
    "thorough": "n=1 x all 27 parameter triples; n=2 all 729 ordered pairs "
    "x 7 settings and the 53 origin pairs x the other 20 triples; n=3 in "
    "all 3 file orders x all radii x defaults, first order also x "
    "{cfac=1, fadd=0, space=1}; header programs on all 6 scales; bulk up to "
    "64000 atoms; 288 end-to-end runs (3 force fields, shifts up to +5000) "
    "and the bundled protein 1AFS end to end in both layouts",
}

TOL = 1e-6

# ---------------------------------------------------------------------------
# the lattice
# ---------------------------------------------------------------------------
LAT = [(x, y, z) for x in (0, 1, -1) for y in (0, 1, -1) for z in (0, 1, -1)]
SCALES = {"0.1": 100, "1": 1000, "30": 30000, "100": 100000,
          "400": 400000, "2000": 2000000}  # milli-Angstrom per lattice step
OFFSETS = {"0": (0, 0, 0), "+500": (500000, 500000, 500000),
           "-500": (-500000, -500000, -500000),
           "mixed": (500000, -500000, 0)}
RADII = (0, 10000, 25000)  # 1e-4 Angstrom
CHARGES = (0.5, -0.75, 0.25)
LAYOUTS = ("fixed", "ws", "compact", "fixed5")

P_VALUES = {"cfac": (1.7, 1.0, 3.0), "fadd": (20.0, 0.0, 50.0),
            "space": (0.5, 0.25, 1.0)}


def _plabel(cfac, fadd, space):
    parts = []
    if cfac != 1.7:
        parts.append(f"cfac={cfac}")
    if fadd != 20.0:
        parts.append(f"fadd={fadd}")
    if space != 0.5:
        parts.append(f"space={space}")
    return ",".join(parts) or "default"


P27 = [_plabel(c, f, s) for c in P_VALUES["cfac"] for f in P_VALUES["fadd"]
       for s in P_VALUES["space"]]
# memory ceilings: generous, just above and below the smallest legal
# per-processor grid (33^3 points x 200 bytes = 6.854 MB)
P_CEIL = ["gmemceil=50.0", "gmemceil=8.0", "gmemceil=5.0"]
MIN_GRID_MB = 200.0 * 33 ** 3 / 1024 / 1024
P7 = [p for p in P27 if "," not in p] + P_CEIL
P1 = ["default"]
P4 = ["default", "cfac=1.0", "fadd=0.0", "space=1.0"]


def params_kw(label):
    if label == "default":
        return {}
    return {k: float(v) for k, v in
            (item.split("=") for item in label.split(","))}


def atom_tuples(n, mode, order=0):
    """Ordered lattice-site tuples, simplest first."""
    o = LAT[0]
    if n == 1:
        return [(a,) for a in LAT]
    if n == 2:
        if mode == "star":
            return [(o, b) for b in LAT] + [(b, o) for b in LAT[1:]]
        return [(a, b) for a in LAT for b in LAT]
    sets = [(o, LAT[i], LAT[j]) for i in range(27) for j in range(i, 27)]
    k = order % 3
    return [s[k:] + s[:k] for s in sets]


def place(sites, radii, scale, offset, records=None):
    """Lattice sites -> atoms [x, y, z (milli-A), r (1e-4 A), q, record]."""
    atoms = []
    for i, (site, r4) in enumerate(zip(sites, radii)):
        atoms.append([site[0] * scale + offset[0], site[1] * scale + offset[1],
                      site[2] * scale + offset[2], r4, CHARGES[i % 3],
                      records[i] if records else "ATOM"])
    return atoms


def hull(atoms):
    """Exact hull of the atom spheres in 1e-4 A (the oracle)."""
    lo = [min(10 * a[i] - a[3] for a in atoms) for i in range(3)]
    hi = [max(10 * a[i] + a[3] for a in atoms) for i in range(3)]
    return lo, hi


# ---------------------------------------------------------------------------
# PQR text
# ---------------------------------------------------------------------------
_CTXT = {}


def _c8(m):
    s = _CTXT.get(m)
    if s is None:
        s = _CTXT[m] = "%8.3f" % (m / 1000.0)
    return s


def pqr_line(layout, idx, atom):
    """One ATOM/HETATM line; None if a fixed-column field would overflow.
    Returns (line, touches) where touches says that a coordinate field fills
    its column completely with a leading digit (no separator to the field
    before it)."""
    xm, ym, zm, r4, q, rec = atom
    if layout == "fixed5":
        # five-digit serials: no blank between HETATM and the serial number
        line, touches = pqr_line("fixed", idx + 9999, atom)
        return line, touches
    if layout == "compact":
        return (f"{rec} {idx + 1} C ALA A 1 {xm / 1000.0:.3f} "
                f"{ym / 1000.0:.3f} {zm / 1000.0:.3f} {q:.4f} "
                f"{r4 / 10000.0:.4f}"), False
    xs, ys, zs = _c8(xm), _c8(ym), _c8(zm)
    qs = "%8.4f" % q
    rs = "%7.4f" % (r4 / 10000.0)
    # pdb2pqr's get_common_string_rep: record(6) serial(5) blank name(4)
    # resname(4) blank chain(1) resseq(4) icode/blank + 3 blanks
    head = f"{rec:<6}{idx + 1:>5}  C   ALA  {1:>4}    "
    if layout == "fixed":
        if len(xs) > 8 or len(ys) > 8 or len(zs) > 8:
            return None, False
        touches = (len(ys) == 8 and ys[0].isdigit()) or (
            len(zs) == 8 and zs[0].isdigit())
        return head + xs + ys + zs + qs + rs, touches
    # --whitespace: blanks after columns 6, 16, 38 and 46 of the fixed line
    return (head[:6] + " " + head[6:16] + " " + head[16:] + xs + " " + ys
            + " " + zs + qs + rs), False


def pqr_lines(layout, atoms):
    lines = []
    touch = False
    for i, a in enumerate(atoms):
        line, t = pqr_line(layout, i, a)
        if line is None:
            return None, None
        lines.append(line)
        touch = touch or t
    lctx = layout
    if touch:
        lctx = ("fixed:coordinate-fills-its-column" if layout == "fixed"
                else layout + ":coordinate-fills-its-column")
    return lines, lctx


# ---------------------------------------------------------------------------
# result collection
# ---------------------------------------------------------------------------
class Collector:
    def __init__(self):
        self.viol = {}
        self.events = Counter()
        self.nontrivial = set()
        self.evals = 0

    def fail(self, sig, detail, case):
        """detail and case may be zero-argument callables: they are only
        evaluated for the first occurrence of a signature in this case."""
        v = self.viol.get(sig)
        if v is None:
            if callable(detail):
                detail = detail()
            if callable(case):
                case = case()
            self.viol[sig] = [detail, case, 1]
        else:
            v[2] += 1

    def result(self):
        out = []
        for sig, (detail, case, n) in self.viol.items():
            d = dict(detail)
            d["occurrences_in_case"] = n
            item = {"sig": sig, "detail": d}
            if case is not None:
                item["case"] = case
            out.append(item)
        return {"evals": self.evals, "violations": out,
                "events": dict(self.events),
                "nontrivial": sorted(self.nontrivial)}


def one_case(atoms, layout, plabel, inserts=None, via="parse_lines"):
    c = {"kind": "one", "atoms": [list(a) for a in atoms], "layout": layout,
         "params": plabel, "via": via}
    if inserts:
        c["inserts"] = [list(i) for i in inserts]
    return c


# ---------------------------------------------------------------------------
# the report
# ---------------------------------------------------------------------------
_NUM = r"([-+0-9.eE]+)"
_RE_PTS = re.compile(rf"Num\. fine grid pts\. = {_NUM} Å x {_NUM} Å x {_NUM} Å")
_RE_SEQ = re.compile(
    rf"Estimated mem\. required for sequential solve = {_NUM} MB")
_RE_PAR = re.compile(rf"Parallel solve required \({_NUM} MB > {_NUM} MB\)")
_RE_PROCPTS = re.compile(
    rf"Grid pts\. on each proc\. = {_NUM} x {_NUM} x {_NUM}")
_RE_PARMEM = re.compile(
    rf"Estimated mem\. required for parallel solve = {_NUM} MB/proc")
_RE_MEMPP = re.compile(rf"Memory per processor = {_NUM} MB")


def _mb(grid):
    return 200.0 * grid[0] * grid[1] * grid[2] / 1048576.0


def _near_mb(printed, expected):
    return abs(printed - expected) <= 0.00051 + 1e-12 * abs(expected)


def check_report(text, p):
    """Memory figures of the report against the grid it prints.
    Returns (mode, [(what, detail)])."""
    bad = []
    if "No ATOM entries" in text and p.gotatom == 0:
        return "no-atom-records", bad
    m = _RE_PTS.search(text)
    if not m:
        return "unreadable", [("report-has-no-grid", {"report": text[-300:]})]
    pts = [float(v) for v in m.groups()]
    if pts != [float(v) for v in p.ngrid]:
        bad.append(("report-prints-another-grid",
                    {"printed": pts, "ngrid": list(p.ngrid)}))
    seq = _RE_SEQ.search(text)
    par = _RE_PAR.search(text)
    mempp = _RE_MEMPP.search(text)
    if bool(seq) == bool(par):
        bad.append(("report-has-no-single-estimate",
                    {"sequential": bool(seq), "parallel": bool(par)}))
        return "unreadable", bad
    if seq:
        mode = "sequential"
        got = float(seq.group(1))
        if not _near_mb(got, _mb(pts)):
            bad.append(("sequential-estimate",
                        {"printed_MB": got, "grid": pts,
                         "expected_MB": round(_mb(pts), 3)}))
        per_proc = _mb(pts)
    else:
        mode = "parallel"
        got = float(par.group(1))
        if not _near_mb(got, _mb(pts)):
            bad.append(("parallel-total-estimate",
                        {"printed_MB": got, "grid": pts,
                         "expected_MB": round(_mb(pts), 3)}))
        pp = _RE_PROCPTS.search(text)
        pm = _RE_PARMEM.search(text)
        if not pp or not pm:
            bad.append(("report-has-no-per-processor-grid", {}))
            return mode, bad
        ppts = [float(v) for v in pp.groups()]
        if ppts != [float(v) for v in p.nsmall]:
            bad.append(("report-prints-another-per-processor-grid",
                        {"printed": ppts, "nsmall": list(p.nsmall)}))
        per_proc = _mb(ppts)
        if not _near_mb(float(pm.group(1)), per_proc):
            bad.append(("per-processor-estimate",
                        {"printed_MB": float(pm.group(1)), "grid": ppts,
                         "expected_MB": round(per_proc, 3)}))
    if mempp and not _near_mb(float(mempp.group(1)), per_proc):
        bad.append(("memory-per-processor",
                    {"printed_MB": float(mempp.group(1)),
                     "expected_MB": round(per_proc, 3), "mode": mode}))
    return mode, bad


def _is_grid_count(n):
    try:
        return n == int(n) and n >= 33 and (int(n) - 1) % 32 == 0
    except (TypeError, ValueError, OverflowError):
        return False


def _bucket(n):
    for b in (33, 65, 129, 257, 1025):
        if n <= b:
            return f"<={b}"
    return ">1025"


# ---------------------------------------------------------------------------
# one sizing against the oracle
# ---------------------------------------------------------------------------
def feed(p, lines, via):
    """Hand the file to the implementation through one of its three doors."""
    if via == "parse_lines":
        p.parse_lines(lines)
    elif via == "parse_string":
        p.parse_string("\n".join(lines) + "\n")
    else:  # parse_input / parse_input_crlf
        eol = "\r\n" if via.endswith("crlf") else "\n"
        path = engine.scratch_dir() / "c17-input.pqr"
        with open(path, "w", newline="") as fh:
            fh.write(eol.join(lines) + eol)
        p.parse_input(str(path))


def size_and_check(lines, lctx, plabel, lo, hi, col, case, via="parse_lines",
                   want_nt=True):
    """Run the real Psize and compare with the property's arithmetic.
    lo, hi: exact hull in 1e-4 A; case: replayable case or a callable that
    builds it.  Returns the Psize or None."""
    from pdb2pqr import psize

    col.evals += 1
    p = psize.Psize(**params_kw(plabel))
    stage = "parse"
    try:
        feed(p, lines, via)
        stage = "set_all"
        p.set_all()
    except Exception as exc:  # the implementation's failure is the finding
        if isinstance(exc, ValueError) and stage == "set_all" and \
                p.gmemceil <= MIN_GRID_MB:
            # no legal grid fits below such a ceiling: refusing is right
            col.events["ceiling-below-smallest-grid:refused"] += 1
            return None
        col.fail(f"C17/sizing/raises:{type(exc).__name__}/layout:{lctx}",
                 {"error": str(exc)[:200], "stage": stage, "via": via,
                  "lines": lines[:4], "params": plabel}, case)
        col.events[f"sizing-raises:{type(exc).__name__}"] += 1
        return None
    cen, fl, cl, ng = p.center, p.fine_length, p.coarse_length, p.ngrid
    clause = None
    fine_gt = False
    for i in range(3):
        a, b = lo[i] * 1e-4, hi[i] * 1e-4
        tol = TOL + 1e-9 * max(abs(a), abs(b))
        c = cen[i]
        if abs(c - (a + b) / 2) > tol:
            clause = clause or set()
            clause.add("centre-is-not-the-hull-midpoint")
        h = cl[i] / 2
        if c - h > a + tol or c + h < b - tol:
            clause = clause or set()
            clause.add("coarse-box-does-not-enclose-the-spheres")
        h = fl[i] / 2
        if c - h > a + tol or c + h < b - tol:
            clause = clause or set()
            clause.add("fine-box-does-not-enclose-the-spheres")
        if fl[i] > cl[i] + tol:
            fine_gt = True
    if clause:
        def detail():
            return {
                "lines": lines[:4], "params": plabel, "via": via,
                "true_hull": [[v / 1e4 for v in lo], [v / 1e4 for v in hi]],
                "psize_hull": [list(p.minlen), list(p.maxlen)],
                "center": list(cen), "fine_length": list(fl),
                "coarse_length": list(cl), "clauses": sorted(clause)}

        misread = any(
            abs(p.minlen[i] - lo[i] * 1e-4) > TOL + 1e-9 * abs(lo[i] * 1e-4)
            or abs(p.maxlen[i] - hi[i] * 1e-4) > TOL + 1e-9 * abs(hi[i] * 1e-4)
            for i in range(3))
        if misread:
            # the hull the implementation took from the file is not the hull
            # of the atom spheres: name the input class, not the parameters
            col.fail("C17/box/spheres-not-enclosed-or-off-centre/"
                     f"hull-misread/layout:{lctx}", detail, case)
        else:
            for name in sorted(clause):
                col.fail(f"C17/box/{name}/params:{plabel}", detail, case)
        col.events["box-wrong"] += 1
    if fine_gt:
        col.fail(f"C17/box/fine-larger-than-coarse/params:{plabel}",
                 lambda: {"lines": lines[:4], "fine_length": list(fl),
                          "coarse_length": list(cl)}, case)
    for n in ng:
        if not _is_grid_count(n):
            col.fail(f"C17/grid/count-not-32k+1>=33/params:{plabel}",
                     lambda: {"lines": lines[:4],
                              "ngrid": [repr(v) for v in ng],
                              "fine_length": list(fl), "space": p.space},
                     case)
            break
    for n in p.nsmall:
        if not _is_grid_count(n):
            col.fail("C17/grid/per-processor-count-not-32k+1>=33/"
                     f"params:{plabel}",
                     lambda: {"lines": lines[:4],
                              "nsmall": [repr(v) for v in p.nsmall],
                              "ngrid": list(ng)}, case)
            break
    # the report
    try:
        text = str(p)
    except Exception as exc:
        try:
            above = _mb(ng) > p.gmemceil
        except TypeError:
            above = False
        where = "above" if above else "below"
        err = str(exc)[:200]
        col.fail(f"C17/str/raises:{type(exc).__name__}/"
                 f"{where}-memory-ceiling",
                 lambda: {"error": err, "lines": lines[:4], "params": plabel,
                          "ngrid": list(ng),
                          "nsmall": [repr(n) for n in p.nsmall],
                          "proc_grid": [repr(n) for n in p.proc_grid],
                          "grid_MB": round(_mb(ng), 3),
                          "gmemceil": p.gmemceil}, case)
        mode = "str-raises"
    else:
        mode, bad = check_report(text, p)
        for what, d in bad:
            d = dict(d)
            d["lines"] = lines[:4]
            d["params"] = plabel
            col.fail(f"C17/memory-estimate/{what}/{mode}", d, case)
    clip = "".join("=" if fl[i] == cl[i] else "<" for i in range(3))
    col.events[f"{mode}|n{_bucket(max(ng))}|fine{clip}coarse"] += 1
    if want_nt:
        col.nontrivial.add(
            f"{lctx}|{plabel}|{ng[0]},{ng[1]},{ng[2]}|{clip}|{mode}")
    return p


# ---------------------------------------------------------------------------
# non-atom lines
# ---------------------------------------------------------------------------
HEADER_KINDS = {
    "REMARK-short": "REMARK   1",
    "REMARK-generated-by": "REMARK   1 PQR file generated by PDB2PQR "
                           "(Version 3.6)",
    "REMARK-total-charge": "REMARK   6 Total charge on this biomolecule: "
                           "0.0000 e",
    "REMARK-words": "REMARK   5 WARNING: PDB2PQR was unable to assign charges "
                    "to the following atoms",
    "REMARK-pka-sentence": "REMARK   1 pKas calculated by propka and assigned "
                           "using pH 7.00",
    # five numeric tokens, all of them after column 30
    "REMARK-numbers-far": f"{'REMARK   3 CELL AND RANGE :':<30}"
                          "  90.000  90.000  90.000  1.0000 50.000",
    "REMARK-numbers-origin": f"{'REMARK   3 ORIGIN AND SCALE :':<30}"
                             "   0.000   0.000   0.000  1.0000 0.0000",
    "REMARK-numbers-biomt": "REMARK 350   BIOMT1   1  1.000000  0.000000  "
                            "0.000000        0.00000",
    "CRYST1": "CRYST1   52.000   58.600   61.900  90.00  90.00  90.00 "
              "P 21 21 21    8",
    "TITLE-sentence": "TITLE     CRYSTAL STRUCTURE OF A SMALL PROTEIN AT 1.8 A "
                      "RESOLUTION IN P 21",
    "HEADER": "HEADER    HYDROLASE                               01-JAN-00   "
              "1ABC",
    "TER": "TER",
    "TER-full": "TER      11      ALA A   2",
    "blank": "",
    "blanks": "      ",
    "END": "END",
}
KINDS = list(HEADER_KINDS)

H_BASES = {
    "one": ([(1, 0, -1)], (10000,)),
    "two": ([(0, 0, 0), (1, -1, 0)], (25000, 0)),
    "three": ([(0, 0, 0), (1, 0, 0), (0, 1, -1)], (10000, 25000, 0)),
}


def line_class(text):
    """Equivalence class of a non-atom line for signatures: record group and
    whether it carries at least five numeric tokens."""
    w = text.split()
    if not w:
        return "blank-line"
    if w[0] in ("TER", "END"):
        return f"{w[0]}-record"
    group = "REMARK" if w[0] == "REMARK" else "other-record"
    numeric = 0
    for tok in w[1:]:
        try:
            float(tok)
            numeric += 1
        except ValueError:
            pass
    return f"{group}-with-" + ("numbers" if numeric >= 5 else "words")


def header_programs(n_atoms):
    """All programs of <=2 inserted lines: list of tuples of (gap, kind);
    a gap g puts the line before atom g (g = n_atoms: after the last)."""
    gaps = range(n_atoms + 1)

    def ok(g, k):
        return k != "END" or g == n_atoms

    singles = [((g, k),) for k in KINDS for g in gaps if ok(g, k)]
    doubles = []
    for g1 in gaps:
        for g2 in range(g1, n_atoms + 1):
            for k1 in KINDS:
                for k2 in KINDS:
                    # (in the last gap a line may follow END: it is still a
                    # trailing non-atom line)
                    if ok(g1, k1) and ok(g2, k2):
                        doubles.append(((g1, k1), (g2, k2)))
    return singles, doubles


def apply_inserts(lines, inserts):
    out = []
    n = len(lines)
    for g in range(n + 1):
        for gg, kind in inserts:
            if gg == g:
                out.append(HEADER_KINDS.get(kind, kind))
        if g < n:
            out.append(lines[g])
    return out


_STATE_GROUPS = (
    ("box", ("minlen", "maxlen", "center", "mol_length", "coarse_length",
             "fine_length", "ngrid", "nsmall", "proc_grid", "nfocus")),
    ("charge", ("charge",)),
    ("counts", ("gotatom", "gothet")),
)


def sizing_state(lines, plabel, via):
    """('ok', attributes, report) or ('raises', name, message)."""
    from pdb2pqr import psize

    p = psize.Psize(**params_kw(plabel))
    try:
        feed(p, lines, via)
        p.set_all()
    except Exception as exc:
        return ("raises", type(exc).__name__, str(exc)[:160])
    attrs = {k: (list(v) if isinstance(v, list) else v)
             for k, v in vars(p).items()}
    try:
        rep = str(p)
    except Exception as exc:
        rep = f"<raises {type(exc).__name__}>"
    return ("ok", attrs, rep)


def state_diff(base, other):
    """None if equal, else (class, detail)."""
    if other[0] == "raises":
        return f"raises:{other[1]}", {"error": other[2]}
    a, b = base[1], other[1]
    for group, names in _STATE_GROUPS:
        changed = {k: [a.get(k), b.get(k)] for k in names
                   if a.get(k) != b.get(k)}
        if changed:
            return f"changes:{group}", changed
    rest = {k: [a.get(k), b.get(k)] for k in a if a.get(k) != b.get(k)}
    if rest:
        return "changes:other", rest
    if base[2] != other[2]:
        return "changes:report", {}
    return None


def _hdr_sig(cls, kinds):
    """cls: 'raises:<Exc>' or 'changes:<what>' (what is kept in the detail:
    one class 'changes-result' whatever part of the result moved)."""
    if cls.startswith("changes:"):
        cls = "changes-result"
    names = "+".join(line_class(HEADER_KINDS.get(k, k)) for k in kinds)
    if len(kinds) > 1:
        names = "only-together:" + names
    return f"C17/header-line/{cls}/{names}"


def run_headers(case, col):
    sites, radii = H_BASES[case["base"]]
    scale = SCALES[case["scale"]]
    offset = OFFSETS[case["offset"]]
    layout = case["layout"]
    via = case["via"]
    atoms = place(sites, radii, scale, offset)
    lines, lctx = pqr_lines(layout, atoms)
    if lines is None:
        col.events["skipped:fixed-column-overflow"] += 1
        return
    col.evals += 1
    base = sizing_state(lines, "default", via)
    if base[0] != "ok":
        col.events[f"header-base-unreadable:{lctx}"] += 1
        return
    singles, doubles = header_programs(len(atoms))
    bad_single = {}
    key = f"hdr|{case['base']}|{layout}|{case['scale']}|{case['offset']}|{via}"
    for prog in singles + doubles:
        col.evals += 1
        st = sizing_state(apply_inserts(lines, prog), "default", via)
        diff = state_diff(base, st)
        col.nontrivial.add(f"{key}|{prog}")
        if diff is None:
            col.events["header-neutral:" + "+".join(
                sorted({line_class(HEADER_KINDS[i[1]]) for i in prog}))] += 1
            continue
        col.events[f"header-{diff[0]}"] += 1

        def detail(prog=prog, diff=diff):
            return {"inserted": [HEADER_KINDS[i[1]] for i in prog],
                    "kinds": [i[1] for i in prog],
                    "gaps": [i[0] for i in prog], "atom_lines": lines,
                    "effect": diff[0], "difference": diff[1], "via": via}

        def replay(prog=prog):
            return one_case(atoms, layout, "default", prog, via)

        if len(prog) == 1:
            bad_single[prog[0]] = diff[0]
            col.fail(_hdr_sig(diff[0], [prog[0][1]]), detail, replay)
            continue
        culprits = [i for i in prog if i in bad_single]
        if culprits:
            # the classes of the single-line failures, not new ones
            for i in dict.fromkeys(culprits):
                col.fail(_hdr_sig(bad_single[i], [i[1]]), detail, replay)
        else:
            col.fail(_hdr_sig(diff[0], [i[1] for i in prog]), detail, replay)


# ---------------------------------------------------------------------------
# geometry blocks
# ---------------------------------------------------------------------------
def run_geom(case, col):
    n = case["n"]
    scale = SCALES[case["scale"]]
    offset = OFFSETS[case["offset"]]
    layout = case["layout"]
    plabels = case["params"]
    rec_patterns = [None]
    if case.get("records"):
        rec_patterns = list(itertools.product(("ATOM", "HETATM"), repeat=n))
    radii_tuples = list(itertools.product(RADII, repeat=n))
    if case.get("records") and n > 1:
        # record patterns: radii (r, r') with r' = r or the next radius
        radii_tuples = [r for r in radii_tuples
                        if RADII.index(r[1]) in (RADII.index(r[0]),
                                                 (RADII.index(r[0]) + 1) % 3)]
    if case.get("r0") is not None:  # chunk: radius of the first site fixed
        radii_tuples = [r for r in radii_tuples if r[0] == RADII[case["r0"]]]
    if case.get("r1") is not None:  # ... and of the second
        radii_tuples = [r for r in radii_tuples if r[1] == RADII[case["r1"]]]
    for sites in atom_tuples(n, case.get("mode", "star"),
                             case.get("order", 0)):
        for radii in radii_tuples:
            for recs in rec_patterns:
                atoms = place(sites, radii, scale, offset, recs)
                lines, lctx = pqr_lines(layout, atoms)
                if lines is None:
                    col.events["skipped:fixed-column-overflow"] += 1
                    continue
                lo, hi = hull(atoms)
                for plabel in plabels:
                    size_and_check(
                        lines, lctx, plabel, lo, hi, col,
                        lambda a=atoms, pl=plabel: one_case(a, layout, pl))


def bulk_atoms(m, spacing, offset):
    atoms = []
    k = 0
    for ix in range(m):
        for iy in range(m):
            for iz in range(m):
                atoms.append([ix * spacing + offset[0],
                              iy * spacing + offset[1],
                              iz * spacing + offset[2], RADII[k % 3],
                              CHARGES[k % 3],
                              "HETATM" if k % 7 == 3 else "ATOM"])
                k += 1
    return atoms


def run_bulk(case, col):
    atoms = bulk_atoms(case["m"], case["spacing"], OFFSETS[case["offset"]])
    lines, lctx = pqr_lines(case["layout"], atoms)
    if lines is None:
        col.events["skipped:fixed-column-overflow"] += 1
        return
    lo, hi = hull(atoms)
    for plabel in case["params"]:
        for via in ("parse_lines", "parse_input"):
            size_and_check(lines, lctx, plabel, lo, hi, col, dict(case),
                           via=via, want_nt=False)
    col.nontrivial.add(f"bulk|{case['m']}|{case['spacing']}|"
                       f"{case['offset']}|{case['layout']}")


# ---------------------------------------------------------------------------
# reference reader for files the harness did not write
# ---------------------------------------------------------------------------
def ref_atoms(text, whitespace=None):
    """[x, y, z, r] floats of every ATOM/HETATM record.  whitespace=None:
    fixed columns if every record reads that way, else the last five
    whitespace tokens."""
    recs = [ln for ln in text.splitlines()
            if ln.startswith(("ATOM", "HETATM"))]
    if whitespace is None:
        try:
            return _ref_atoms(recs, False), False
        except ValueError:
            return _ref_atoms(recs, True), True
    return _ref_atoms(recs, whitespace), whitespace


def _ref_atoms(recs, whitespace):
    out = []
    for line in recs:
        if whitespace:
            w = line.split()
            x, y, z, _q, r = (float(v) for v in w[-5:])
        else:
            x, y, z = float(line[30:38]), float(line[38:46]), float(line[46:54])
            _q = float(line[54:62])
            r = float(line[62:69])
        out.append((x, y, z, r))
    return out


def fixed_touch(text):
    """Does a y or z field of a fixed-column file start with a digit in its
    first column (no separator to the field before it)?"""
    for ln in text.splitlines():
        if ln.startswith(("ATOM", "HETATM")) and len(ln) > 46:
            if ln[38].isdigit() or ln[46].isdigit():
                return True
    return False


def ref_hull(atoms):
    lo = [min(a[i] - a[3] for a in atoms) for i in range(3)]
    hi = [max(a[i] + a[3] for a in atoms) for i in range(3)]
    return lo, hi


def run_bundled(case, col):
    """A PQR file shipped with the project, with and without its non-atom
    lines."""
    path = engine.REPO / "tests" / "data" / case["file"]
    text = path.read_text()
    lines = text.splitlines()
    atom_lines = [ln for ln in lines if ln.startswith(("ATOM", "HETATM"))]
    other = [ln for ln in lines if not ln.startswith(("ATOM", "HETATM"))]
    if not atom_lines:
        col.events["bundled-without-atoms"] += 1
        return
    col.nontrivial.add(f"bundled|{case['file']}")
    # 1. the atoms alone against the oracle (independent reader)
    atoms, ws = ref_atoms(text)
    lo, hi = ref_hull(atoms)
    lo4 = [round(v * 1e4) for v in lo]
    hi4 = [round(v * 1e4) for v in hi]
    lctx = "ws" if ws else "fixed"
    if not ws and fixed_touch(text):
        lctx = "fixed:coordinate-fills-its-column"
    size_and_check(atom_lines, lctx, "default", lo4, hi4, col, dict(case),
                   via="parse_string", want_nt=False)
    # 2. the file as shipped
    col.evals += 2
    base = sizing_state(atom_lines, "default", "parse_string")
    full = sizing_state(lines, "default", "parse_string")
    if base[0] != "ok":
        col.events["bundled-atoms-unreadable"] += 1
        return
    diff = state_diff(base, full)
    if diff is None:
        col.events["bundled-neutral:" + ("no" if not other else "some")
                   + "-non-atom-lines"] += 1
        return
    # 3. which class of line does it: each distinct non-atom line alone in
    # front of the first three atoms
    probe = atom_lines[:3]
    pbase = sizing_state(probe, "default", "parse_string")
    blamed = {}
    for ln in dict.fromkeys(other):
        col.evals += 1
        d = state_diff(pbase, sizing_state([ln] + probe, "default",
                                           "parse_string"))
        if d is not None:
            w = ln.split()
            rec = w[0] + (f" {w[1]}" if w[0] == "REMARK" and len(w) > 1
                          else "")
            blamed.setdefault((d[0], line_class(ln)), {}).setdefault(rec, ln)
    if not blamed:
        blamed[(diff[0], "unattributed")] = {}
    for (cls, lclass), recs in sorted(blamed.items()):
        sig_cls = "changes-result" if cls.startswith("changes:") else cls
        col.fail(f"C17/header-line/{sig_cls}/{lclass}",
                 {"file": case["file"], "records": recs, "effect": cls,
                  "whole_file_difference": [diff[0], diff[1]]}, dict(case))
    col.events[f"bundled-{diff[0]}"] += 1


# ---------------------------------------------------------------------------
# APBS input
# ---------------------------------------------------------------------------
def parse_apbs_input(text):
    mols = re.findall(r"^\s*mol pqr (.*)$", text, re.M)
    elecs = []
    for block in re.findall(r"^elec.*?^end$", text, re.M | re.S):
        e = {"method": block.splitlines()[1].strip()}
        for key in ("dime", "cglen", "fglen", "pdime"):
            m = re.search(rf"^\s*{key} (\S+) (\S+) (\S+)\s*$", block, re.M)
            if m:
                e[key] = list(m.groups())
        elecs.append(e)
    return mols, elecs


def check_apbs_input(in_text, pqr_name, lo, hi, fresh, tag, lctx, col, case,
                     context):
    """in_text: APBS input; lo/hi: true hull (A, floats); fresh: Psize of
    the same PQR file (or None); tag: seam; lctx: layout class."""
    mols, elecs = parse_apbs_input(in_text)
    if mols != [pqr_name]:
        col.fail(f"C17/{tag}/input-does-not-name-the-pqr",
                 {"mol_pqr": mols, "expected": pqr_name, **context}, case)
    if not elecs:
        col.fail(f"C17/{tag}/input-has-no-elec-section", dict(context), case)
        return
    for e in elecs:
        if not all(k in e for k in ("dime", "cglen", "fglen")):
            col.fail(f"C17/{tag}/input-lacks-dime-cglen-fglen",
                     {"elec": e, **context}, case)
            continue
        dime = [float(v) for v in e["dime"]]
        cg = [float(v) for v in e["cglen"]]
        fg = [float(v) for v in e["fglen"]]
        small = set()
        other = set()
        for i in range(3):
            ext = hi[i] - lo[i]
            if cg[i] < ext - 1e-4:
                small.add("cglen")
            if fg[i] < ext - 1e-4:
                small.add("fglen")
            if fg[i] > cg[i] + 1e-4:
                other.add("fglen-larger-than-cglen")
            if not _is_grid_count(dime[i]):
                other.add("dime-not-32k+1>=33")
        if small:
            sig = f"C17/{tag}/box-smaller-than-the-molecule/layout:{lctx}"
            if tag == "dump_apbs" and fresh is not None and any(
                    abs(fresh.minlen[i] - lo[i]) > 1e-4
                    or abs(fresh.maxlen[i] - hi[i]) > 1e-4 for i in range(3)):
                # same class as the direct sizing of such a file
                sig = ("C17/box/spheres-not-enclosed-or-off-centre/"
                       f"hull-misread/layout:{lctx}")
            col.fail(sig, {"elec": e, "too_small": sorted(small),
                           "hull": [lo, hi], "via": tag, **context}, case)
        for c in sorted(other):
            col.fail(f"C17/{tag}/{c}",
                     {"elec": e, "hull": [lo, hi], **context}, case)
        if fresh is not None:
            want = {
                "dime": [str(int(n)) for n in fresh.ngrid],
                "cglen": [f"{v:.4f}" for v in fresh.coarse_length],
                "fglen": [f"{v:.4f}" for v in fresh.fine_length],
            }
            for k, w in want.items():
                if e[k] != w:
                    col.fail(f"C17/{tag}/{k}-differs-from-sizing",
                             {"written": e[k], "psize": w, **context}, case)
    col.events[f"{tag}:input-checked:{elecs[0]['method']}:{lctx}"] += 1


D_GEOMS = [
    ([(0, 0, 0)], (0,)),
    ([(1, -1, 0)], (25000,)),
    ([(0, 0, 0), (1, 0, 0)], (10000, 10000)),
    ([(0, 0, 0), (0, 0, 0)], (25000, 0)),
    ([(-1, -1, -1), (1, 1, 1)], (0, 25000)),
    ([(1, 0, 0), (0, 1, 0), (0, 0, 1)], (10000, 0, 25000)),
    ([(0, 0, 0), (1, 1, 0), (-1, 0, 1)], (25000, 10000, 10000)),
    ([(-1, 0, 0), (1, 0, 0), (0, 0, 0)], (0, 0, 0)),
    ([(1, 1, 1), (1, 1, 1), (1, 1, -1)], (10000, 25000, 0)),
    ([(0, -1, 1), (-1, 1, 0), (1, 0, -1)], (25000, 25000, 25000)),
]
# output names: the written input must name exactly this file
D_NAMES = ("m.pqr", "x.y.pqr", "NOEXT", "model.PQR", "x.pqr.txt",
           "model_pH7.5", "in.cif")
D_HEADERS = ((), ("REMARK-generated-by", "REMARK-total-charge"),
             ("REMARK-numbers-far",))


def dump_one(atoms, layout, hdr, name, eol, col, case):
    """io.dump_apbs on one harness-written file.  With non-atom lines the
    written input must be the one obtained without them."""
    from pdb2pqr import io as pio
    from pdb2pqr import psize

    lines, lctx = pqr_lines(layout, atoms)
    if lines is None:
        col.events["skipped:fixed-column-overflow"] += 1
        return
    lo4, hi4 = hull(atoms)
    lo = [v / 1e4 for v in lo4]
    hi = [v / 1e4 for v in hi4]
    d = engine.scratch_dir()
    pqr = d / name
    inp = d / "c17-dump.in"

    def dump(body):
        with open(pqr, "w", newline="") as fh:
            fh.write(eol.join(body) + eol)
        if inp.exists():
            inp.unlink()
        col.evals += 1
        try:
            pio.dump_apbs(str(pqr), str(inp))
        except Exception as exc:
            return ("raises", type(exc).__name__, str(exc)[:200])
        if not inp.exists():
            return ("nofile",)
        return ("ok", inp.read_text())

    plain = dump(lines + ["TER", "END"])
    ctx = {"pqr_lines": lines[:4], "name": name, "eol": eol}
    if plain[0] == "raises":
        col.fail(f"C17/sizing/raises:{plain[1]}/layout:{lctx}",
                 {"error": plain[2], "via": "io.dump_apbs", **ctx}, case)
        col.events[f"dump-raises:{plain[1]}"] += 1
        return
    if plain[0] == "nofile":
        col.fail("C17/dump_apbs/no-input-file-written", ctx, case)
        return
    if not hdr:
        fresh = psize.Psize()
        try:
            fresh.parse_lines(lines)
            fresh.set_all()
        except Exception:
            fresh = None
        check_apbs_input(plain[1], name, lo, hi, fresh, "dump_apbs", lctx,
                         col, case, ctx)
        return
    body = [HEADER_KINDS[h] for h in hdr] + lines + ["TER", "END"]
    got = dump(body)
    if got == plain:
        col.events["dump-header-neutral"] += 1
        return
    cls = f"raises:{got[1]}" if got[0] == "raises" else "changes:box"
    blame = hdr[-1]
    col.fail(_hdr_sig(cls, [blame]),
             {"inserted": [HEADER_KINDS[h] for h in hdr],
              "via": "io.dump_apbs", "without": plain[1][:220],
              "with": got[1][:220] if got[0] == "ok" else list(got), **ctx},
             case)
    col.events[f"dump-header-{cls}"] += 1


def run_dump(case, col):
    """io.dump_apbs on harness-written files (the seam under --apbs-input)."""
    scale = SCALES[case["scale"]]
    offset = OFFSETS[case["offset"]]
    layout = case["layout"]
    k = 0
    for sites, radii in D_GEOMS:
        atoms = place(sites, radii, scale, offset)
        for hdr in D_HEADERS:
            # without header lines (where the written input is inspected)
            # every output name is used; with header lines one per file
            names = D_NAMES if not hdr else (D_NAMES[k % len(D_NAMES)],)
            for name in names:
                eol = "\r\n" if k % 2 else "\n"
                k += 1
                col.nontrivial.add(f"dump|{case['scale']}|{case['offset']}|"
                                   f"{layout}|{k}")
                dump_one(atoms, layout, hdr, name, eol, col,
                         {"kind": "one-dump",
                          "atoms": [list(a) for a in atoms],
                          "layout": layout, "header": list(hdr),
                          "name": name, "eol": eol})


E_SEQS = {
    "A": ["ALA"],
    "AGS": ["ALA", "GLY", "SER"],
    "KDHC": ["LYS", "ASP", "HIS", "CYS"],
    "long": ["ALA", "ARG", "GLU", "TRP", "GLY", "PHE", "LYS", "THR", "ASN",
             "LEU", "ALA", "ALA"],
}
E_SHIFTS = {"0": (0, 0, 0), "+500": (500, 500, 500), "-500": (-500, -500, -500),
            "mixed": (500, -500, 0), "+1000": (1000, 1000, 1000),
            "+5000": (5000, 2000, 1000)}
E_OPTS = {"plain": [], "ws": ["--whitespace"], "chain": ["--keep-chain"],
          "ws+chain": ["--whitespace", "--keep-chain"]}
E_NAMES = ("out.pqr", "a.b.pqr", "out.PQR", "model_pH7.5", "x.pqr.txt")


def _e2e_input(case):
    from .. import build

    if case.get("file"):
        return (engine.REPO / "tests" / "data" / case["file"]).read_text()
    atoms = build.build_peptide(list(E_SEQS[case["seq"]]))
    if case.get("waters"):
        atoms.append(build.water((6.0, 6.0, 6.0), 101))
        atoms.append(build.water((-7.0, 5.0, -6.0), 102))
    build.transform(atoms, translation=E_SHIFTS[case["shift"]])
    return build.pdb_text(atoms)


def run_e2e(case, col):
    from pdb2pqr import inputgen
    from pdb2pqr import io as pio
    from pdb2pqr import psize

    from .. import pipeline

    text = _e2e_input(case)
    seen = {}

    def dump(orig, pqr, path):
        seen["entered"] = True
        try:
            return orig(pqr, path)
        except Exception as exc:
            seen["exc"] = (type(exc).__name__, str(exc)[:200])
            raise

    def grab(args, kwargs):
        size = args[1] if len(args) > 1 else kwargs.get("size")
        seen["size"] = {k: (list(v) if isinstance(v, list) else v)
                        for k, v in vars(size).items()}

    opts = [f"--ff={case['ff']}"] + list(E_OPTS[case["opts"]])
    out_name = case.get("out", "out.pqr")
    d = engine.scratch_dir()
    inp = d / "c17-e2e.in"
    if inp.exists():
        inp.unlink()
    with pipeline.monitors([
        (pio, "dump_apbs", {"replace": dump}),
        (inputgen, "Input", {"before": grab}),
    ]):
        r = pipeline.run(text, opts + ["--apbs-input", "@out:c17-e2e.in"],
                         out_name=out_name)
    col.evals += 1
    col.nontrivial.add("e2e|" + "|".join(
        str(case.get(k)) for k in ("seq", "file", "ff", "opts", "shift",
                                   "waters", "out")))
    ws = "--whitespace" in opts
    lctx = "ws" if ws else "fixed"
    if not ws and fixed_touch(r.pqr_text or ""):
        lctx = "fixed:coordinate-fills-its-column"
    ctx = {"argv_opts": opts, "shift": case.get("shift"),
           "pqr_head": (r.pqr_text or "").splitlines()[:3]}
    if not seen.get("entered"):
        col.events[f"e2e:failed-before-dump_apbs:{r.exc and r.exc[0]}"] += 1
        return
    if "exc" in seen:
        col.fail(f"C17/e2e/dump_apbs-raises:{seen['exc'][0]}/layout:{lctx}",
                 {"error": seen["exc"][1], **ctx}, dict(case))
        col.events[f"e2e:dump_apbs-raises:{seen['exc'][0]}"] += 1
        return
    if not r.ok:
        col.events[f"e2e:failed-after-dump_apbs:{r.exc and r.exc[0]}"] += 1
        return
    if not inp.exists():
        col.fail("C17/e2e/no-input-file-written", ctx, dict(case))
        return
    atoms, _ws = ref_atoms(r.pqr_text, ws)
    lo, hi = ref_hull(atoms)
    fresh = psize.Psize()
    col.evals += 1
    try:
        fresh.run_psize(str(r.out_path))
    except Exception:
        fresh = None
    check_apbs_input(inp.read_text(), out_name, lo, hi, fresh, "e2e", lctx,
                     col, dict(case), ctx)
    if fresh is not None and "size" in seen:
        doubled = [k for k in ("gotatom", "gothet", "charge")
                   if seen["size"].get(k) != getattr(fresh, k)]
        same = all(seen["size"].get(k) == getattr(fresh, k)
                   for k in ("center", "coarse_length", "fine_length",
                             "ngrid", "minlen", "maxlen"))
        if doubled and same:
            col.events["e2e:dump_apbs-reads-the-file-twice:"
                       "counts-doubled-grid-unchanged"] += 1
        elif not same:
            col.fail("C17/e2e/sizing-inside-dump_apbs-differs-from-a-"
                     "single-reading", {"inside": {
                         k: seen["size"].get(k) for k in
                         ("center", "coarse_length", "fine_length", "ngrid")},
                         **ctx}, dict(case))
    # the sizing of the written file itself against the oracle
    lo4 = [round(v * 1e4) for v in lo]
    hi4 = [round(v * 1e4) for v in hi]
    size_and_check(r.pqr_text.splitlines(), lctx, "default", lo4, hi4, col,
                   dict(case), via="parse_string", want_nt=False)


# ---------------------------------------------------------------------------
# replay of minimal cases
# ---------------------------------------------------------------------------
def run_one(case, col):
    atoms = case["atoms"]
    lines, lctx = pqr_lines(case["layout"], atoms)
    if lines is None:
        return
    via = case.get("via", "parse_lines")
    if case.get("inserts"):
        prog = tuple((g, k) for g, k in case["inserts"])
        col.evals += 2
        base = sizing_state(lines, "default", via)
        if base[0] != "ok":
            return
        st = sizing_state(apply_inserts(lines, prog), "default", via)
        diff = state_diff(base, st)
        if diff is None:
            return
        singles = {}
        for ins in prog:
            d1 = state_diff(base, sizing_state(
                apply_inserts(lines, (ins,)), "default", via))
            if d1 is not None:
                singles[ins] = d1[0]
        if singles:
            for ins, cls in singles.items():
                col.fail(_hdr_sig(cls, [ins[1]]),
                         {"difference": diff[1]}, None)
        else:
            col.fail(_hdr_sig(diff[0], [i[1] for i in prog]),
                     {"difference": diff[1]}, None)
        return
    lo, hi = hull(atoms)
    size_and_check(lines, lctx, case["params"], lo, hi, col, None, via=via)


def run_one_dump(case, col):
    dump_one(case["atoms"], case["layout"], tuple(case["header"]),
             case["name"], case["eol"], col, None)


# ---------------------------------------------------------------------------
# harness interface
# ---------------------------------------------------------------------------
def worker_init():
    import pdb2pqr.inputgen  # noqa: F401
    import pdb2pqr.io  # noqa: F401
    import pdb2pqr.psize  # noqa: F401


_RUNNERS = {
    "geom": run_geom, "headers": run_headers, "bulk": run_bulk,
    "bundled": run_bundled, "dump": run_dump, "e2e": run_e2e,
    "one": run_one, "one-dump": run_one_dump,
}


def run_case(case):
    col = Collector()
    _RUNNERS[case["kind"]](case, col)
    return col.result()


def _placements(scales=None):
    for s in (scales or SCALES):
        for o in OFFSETS:
            for lay in LAYOUTS:
                yield s, o, lay


def enumerate_cases(tier, seed):
    thorough = tier == "thorough"
    cases = []
    order = ["1", "0.1", "30", "100", "400", "2000"]  # simplest first
    # --- geometry -------------------------------------------------------
    for s, o, lay in _placements(order):
        cases.append({"kind": "geom", "n": 1, "scale": s, "offset": o,
                      "layout": lay, "params": P27 if thorough else P7})
    for s, o, lay in _placements(order):
        cases.append({"kind": "geom", "n": 1, "scale": s, "offset": o,
                      "layout": lay, "params": P1, "records": True})
        cases.append({"kind": "geom", "n": 2, "mode": "star", "scale": s,
                      "offset": o, "layout": lay, "params": P1,
                      "records": True})
    for s, o, lay in _placements(order):
        if thorough:
            cases.append({"kind": "geom", "n": 2, "mode": "full",
                          "scale": s, "offset": o, "layout": lay,
                          "params": P7})
            cases.append({"kind": "geom", "n": 2, "mode": "star", "scale": s,
                          "offset": o, "layout": lay,
                          "params": [p for p in P27 if p not in P7]})
        else:
            cases.append({"kind": "geom", "n": 2, "mode": "star", "scale": s,
                          "offset": o, "layout": lay, "params": P7})
    for s, o, lay in _placements(order):
        if thorough:
            for k in range(3):
                for r0 in range(3):
                    cases.append({"kind": "geom", "n": 3, "order": k,
                                  "r0": r0, "scale": s, "offset": o,
                                  "layout": lay,
                                  "params": P4 if k == 0 else P1})
        else:
            # one of the 27 (file order, first radius, second radius)
            # blocks, chosen by the seed
            cases.append({"kind": "geom", "n": 3, "order": seed % 3,
                          "r0": (seed // 3) % 3, "r1": (seed // 9 + 1) % 3,
                          "scale": s, "offset": o, "layout": lay,
                          "params": P1})
    # --- non-atom lines ---------------------------------------------------
    h_scales = order if thorough else ["1", "100"]
    for base in H_BASES:
        for s, o, lay in _placements(h_scales):
            cases.append({"kind": "headers", "base": base, "scale": s,
                          "offset": o, "layout": lay, "via": "parse_string"})
    for s, o, lay in _placements(["1"]):
        cases.append({"kind": "headers", "base": "three", "scale": s,
                      "offset": o, "layout": lay, "via": "parse_input"})
        cases.append({"kind": "headers", "base": "two", "scale": s,
                      "offset": o, "layout": lay, "via": "parse_input_crlf"})
    # --- many atoms ---------------------------------------------------------
    ms = [2, 3, 5, 10, 20] + ([30, 40] if thorough else [])
    for m in ms:
        for spacing in (1500, 3800, 10000):
            for o in OFFSETS:
                for lay in LAYOUTS:
                    cases.append({"kind": "bulk", "m": m, "spacing": spacing,
                                  "offset": o, "layout": lay,
                                  "params": P7 if m <= 5 else P1})
    # --- files shipped with the project --------------------------------------
    data = engine.REPO / "tests" / "data"
    for name in sorted(os.listdir(data)):
        if name.endswith(".pqr"):
            cases.append({"kind": "bundled", "file": name})
    # --- dump_apbs ---------------------------------------------------------
    for s, o, lay in _placements(order):
        cases.append({"kind": "dump", "scale": s, "offset": o, "layout": lay})
    # --- the program ---------------------------------------------------------
    e2e = []
    for shift in (E_SHIFTS if thorough else ("0", "+500", "mixed", "+1000")):
        for seq in (E_SEQS if thorough else ("A", "AGS", "KDHC")):
            for optk in E_OPTS:
                for ff in (("AMBER", "PARSE", "CHARMM") if thorough
                           else ("AMBER",)):
                    e2e.append({"kind": "e2e", "seq": seq, "ff": ff,
                                "opts": optk, "shift": shift,
                                "waters": seq in ("AGS", "long"),
                                "out": E_NAMES[len(e2e) % len(E_NAMES)]})
    cases += e2e
    if thorough:
        cases.append({"kind": "e2e", "file": "1AFS.pdb", "ff": "AMBER",
                      "opts": "plain", "out": "out.pqr"})
        cases.append({"kind": "e2e", "file": "1AFS.pdb", "ff": "AMBER",
                      "opts": "ws", "out": "out.pqr"})
    return cases
