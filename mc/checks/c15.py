"""C15 - rigid-body fitting reproduces exact placements; torsion setting is a
proper rotation about the axis that lands on the requested angle.

Direct seams (no pipeline run): quatfit.find_coordinates, quatfit.qchichange,
Debump.set_dihedral_angle, Residue.rotate_tetrahedral, utilities.dihedral.

(a) fits.  Domain = every placement tuple the topology data can generate:
    every atom of every canonical residue template (AA.xml, NA.xml, all
    PATCHES.xml variants, plus the PEPTIDE-patched variants that carry the
    N+1 / C-1 pseudo atoms) x the reference atoms the implementation would
    pick for it ("first three available" in get_nearest_bonds order, re-derived
    here on the independently parsed templates) under an availability
    alphabet: class A = everything present / heavy atoms only (what the
    pipeline meets on complete residues), class B = any one of the first three
    missing, class C = 4, 5 (thorough: all) neighbours, class D (thorough) =
    every 3-subsequence of the first six.  Tuples that are numerically
    identical (same ordered coordinates) are executed once and counted for
    every template they stand for.  Each tuple x rotation lattice x
    translation list: the structure is R*template+t, the oracle is R*p+t
    (numpy), the mirror image through the plane of the reference points is
    recognised explicitly, a fourth out-of-plane probe point pins the
    handedness even for in-plane atoms, and a further rigid motion of the
    structure must move the result with it (also for structures that are not
    exact images: rounded to 3 decimals).
(b) torsions.  Real Residue objects (X at a chain position of ALA/X/ALA built
    with hydrogens, read with pdb.read_pdb, prepared like
    Debump.debump_biomolecule does): every template dihedral x ordered
    (start, target) pairs of the angle lattice through
    Debump.set_dihedral_angle; every bonded ordered atom pair x target
    lattice through Residue.rotate_tetrahedral (used the way
    Amino.rebuild_tetrahedral does: rotate by target - measured);
    quatfit.qchichange directly on lattice axes / template bond axes.
    Oracle: utilities.dihedral and an independent atan2 dihedral both read the
    target (0.05 deg, mod 360); every atom keeps its distance to both axis
    atoms (1e-6 A); the moved atoms are one rigid, proper (det +1) rotation.
"""

import itertools
import math
from collections import OrderedDict

import numpy as np

from .. import build, engine
from ..refs import templates as T

PROPERTY = "C15"
LEVEL = "exploration"
RULE = (
    "every case of: fit (distinct numeric placement tuple = ordered template "
    "reference coordinates + template position of the placed atom, over all "
    "canonical and PEPTIDE-patched templates and the availability alphabet) "
    "x rotation lattice (24 cube rotations incl. identity, 13 lattice axes x "
    "angle multiples) x translations; fit2 (every tetrahedral 2-point tuple "
    "of Amino.rebuild_tetrahedral); torsion (residue x chain position x pose "
    "x template dihedral x ordered (start,target) angle pairs); tetra (every "
    "ordered bonded atom pair x target lattice); qchi (lattice axes x scales "
    "x angles, template bond axes).  non-trivial = distinct (template, atom, "
    "reference list) tuples, (residue, position, pose, dihedral), (residue, "
    "position, pose, axis bond) and (axis, scale) combinations that were "
    "executed and measured"
)
ASSUMPTIONS = [
    "SO(3), R^3 and the angle circle are explored on lattices (cube "
    "rotations, 13 axes x angle multiples, 4-5 translations up to 9e4 A, "
    "5 degree angle lattice plus fine values next to 0 and 180 and values "
    "beyond +-180): 'exploration', complete inside the lattice and over the "
    "complete template domain",
    "non-degenerate = second singular value of the centred reference points "
    ">= 2e-3 A (no tuple of the template domain is below it); the structure "
    "coordinates are the double-precision image R*x+t, i.e. an exact image "
    "up to 1.5e-11 A representation error at 9e4 A offsets, far inside the "
    "property's 1e-6 A",
    "'moves with the structure' is checked with 2e-6 A (two placements, each "
    "allowed 1e-6 A) for exact images and for 3-decimal rounded structures "
    "moved by cube rotations and integer translations (exact in floating "
    "point)",
    "2-point fits (rebuild_tetrahedral) are outside the >=3 point clause; "
    "only what every rigid superposition of two points guarantees is "
    "demanded: the placed atom keeps its template distance to both reference "
    "atoms",
    "the torsion clause is read for Debump.set_dihedral_angle literally (the "
    "angle the implementation stores is its utilities.dihedral reading of "
    "the final coordinates; utilities.dihedral is additionally called "
    "directly on the fine/out-of-range targets, at every "
    "rotate_tetrahedral step and in the qchichange block) and for "
    "Residue.rotate_tetrahedral through its caller's idiom (rotate by "
    "target - utilities.dihedral); 'distances to the axis atoms unchanged' "
    "is checked for every atom of the residue, and the moved atoms "
    "additionally have to be one rigid proper rotation (pairwise distances "
    "kept, same signed rotation angle about the axis)",
    "dihedrals whose atoms are not all in the residue (cached angle None: "
    "TYM HH) cannot be set by the implementation and are counted, not "
    "judged; canonical names that are regex artefacts of the patch "
    "mechanism (NWAT, CWAT ...) keep bonds to absent atoms, those bonds are "
    "ignored",
]
BOUND = {
    "quick": "fits: class A (533 distinct tuples standing for all 359 "
    "templates) x (24 cube rotations + 13 axes x multiples of 15 deg) x 4 "
    "translations (max 9e4 A), handedness probe / further rigid motion / "
    "rounded-structure motion on the 30 deg sub-lattice; classes B (2194) "
    "and C (1921, 4- and 5-point) x (cube + 13 axes x multiples of 60 deg) "
    "with the translations cycled, probe on the cube rotations; the "
    "ill-conditioned stratum of class D (54 tuples whose reference points "
    "have sigma2 < 0.05 A) x 30 deg lattice x 4 translations + probe; all "
    "39 distinct 2-point tetrahedral tuples x 30 deg lattice x 4 "
    "translations; torsions: every template dihedral of 30 residue states "
    "mid-chain x (12 starts on the 30 deg lattice x 72 targets, both ways) "
    "+ 49 fine/out-of-range targets; chain ends and one seed-chosen rigid "
    "pose with starts {0,180}; rotate_tetrahedral: every ordered bonded pair "
    "x 30 targets x (3 positions + 1 pose); qchichange: 26 lattice axes x "
    "(unit length: multiples of 5 deg in [-360,720] + fine; 3 other lengths: "
    "multiples of 15 deg), template bond axes of the 26 base templates x "
    "15 deg lattice",
    "thorough": "fits: class A x (cube + 13 axes x multiples of 5 deg) x 5 "
    "translations (adds the PDB maximum 9999.999) with probe, further motion "
    "and rounded-structure motion on every rotation; class B x 15 deg "
    "lattice x 5 translations (probe / motions on the 30 deg sub-lattice); "
    "class C x 30 deg lattice x 5 translations + probe; class D (8844 "
    "tuples: every 3-subsequence of the first six neighbours) and class E "
    "(2417: complete neighbour lists, up to 22 points) x 30 deg lattice, "
    "translations cycled, the ill-conditioned stratum with the full "
    "product; torsions: every ordered (start,target) pair of the 5 deg "
    "lattice mid-chain, 30 deg start lattice at the chain ends and for "
    "three further rigid poses (offsets up to 9e4 A); rotate_tetrahedral x "
    "84 targets (pose 0) / 30 targets x 3 positions x 4 poses; qchichange "
    "bond axes of all 194 canonical templates x 5 deg lattice",
}

TOL_FIT = 1e-6
TOL_EQUIV = 2e-6
TOL_DIST = 1e-6
TOL_ANGLE = 0.05
DEGENERATE_SIGMA2 = 2e-3
# Reference points within about one degree of a straight line: still inside
# the property (non-collinear, well conditioned enough for 1e-11 A with a
# converged eigen-solver), but a class of its own in the signatures.
NEAR_COLLINEAR_SIGMA2 = 1e-2
# class D tuples below this are the "ill-conditioned stratum" that also the
# quick tier runs, with the full rotation x translation product
STRATUM_SIGMA2 = 5e-2

PSEUDO = ("N+1", "C-1")

# ---------------------------------------------------------------------------
# lattices
# ---------------------------------------------------------------------------
AXES13 = []
for _v in itertools.product((0, 1, -1), repeat=3):
    if _v == (0, 0, 0):
        continue
    _first = next(c for c in _v if c != 0)
    if _first > 0:
        AXES13.append(list(_v))
AXES13.sort(key=lambda v: (sum(abs(c) for c in v), [-c for c in v]))
assert len(AXES13) == 13
AXES26 = AXES13 + [[-c for c in v] for v in AXES13]

TRANSLATIONS = [[0.0, 0.0, 0.0], [1.0, 2.0, 3.0], [1e3, -2e3, 5e2],
                [9e4, 9e4, -9e4]]
TRANSLATION_PDBMAX = [9999.999, -9999.999, 9999.999]


def rodrigues(axis, deg):
    u = np.asarray(axis, float)
    u = u / np.linalg.norm(u)
    a = math.radians(deg)
    K = np.array([[0.0, -u[2], u[1]], [u[2], 0.0, -u[0]],
                  [-u[1], u[0], 0.0]])
    return np.eye(3) + math.sin(a) * K + (1.0 - math.cos(a)) * (K @ K)


def rot_matrix(spec):
    """spec: ["cube", k] | ["axis", [x, y, z], degrees]."""
    if spec[0] == "cube":
        return np.array(build.CUBE_ROTATIONS[spec[1]], float)
    if spec[0] == "axis":
        return rodrigues(spec[1], spec[2])
    raise ValueError(spec)


def _is_cube(M):
    return bool(np.all(np.minimum(np.abs(M), np.abs(np.abs(M) - 1.0)) < 1e-9))


_LATTICES = {}


def rotation_lattice(step):
    """24 cube rotations (identity first) + 13 axes x multiples of `step`
    degrees; axis rotations that coincide with a cube rotation are dropped."""
    if step not in _LATTICES:
        specs = [["cube", k] for k in range(24)]
        for ang in range(step, 360, step):
            for ax in AXES13:
                if not _is_cube(rodrigues(ax, ang)):
                    specs.append(["axis", ax, ang])
        mats = np.array([rot_matrix(s) for s in specs])
        _LATTICES[step] = (specs, mats)
    return _LATTICES[step]


# How much of the lattice each class of tuples gets.
#   step    : angle step of the axis rotations
#   product : every rotation with every translation (else translations cycle)
#   probe / moved : "all" | "sub30" (cube + multiples of 30) | "cube" | "none"
#   rounded : equivariance on 3-decimal structures (30 deg sub-lattice)
PLANS = {
    "full15": dict(step=15, product=True, probe="sub30", moved="sub30",
                   rounded=True),
    "lite60": dict(step=60, product=False, probe="cube", moved="none",
                   rounded=False),
    "full5": dict(step=5, product=True, probe="all", moved="all",
                  rounded=True),
    "prod30": dict(step=30, product=True, probe="all", moved="none",
                   rounded=False),
    "lite30": dict(step=30, product=False, probe="cube", moved="none",
                   rounded=False),
}


def _selected(spec, which, explicit):
    if explicit or which == "all":
        return True
    if which == "none":
        return False
    if spec[0] == "cube":
        return True
    return which == "sub30" and spec[2] % 30 == 0


# further rigid motions for "the result moves with the structure"
_EQ_GENERIC = [([1, 2, 3], 37.0), ([-2, 1, 3], 101.0), ([3, -1, 2], 163.0),
               ([1, -3, -2], 251.0), ([2, 3, -1], 319.0)]
_EQ_TRANS = [[0.0, 0.0, 0.0], [-3.0, 5.0, 7.0], [250.0, -125.0, 60.0],
             [-4e4, 3e4, 2e4]]
_FURTHER = {}


def further_motion(i):
    """Deterministic further rigid motion number i: (spec, R2, t2)."""
    if i not in _FURTHER:
        n_c = len(build.CUBE_ROTATIONS)
        k = i % (n_c + len(_EQ_GENERIC))
        if k < n_c:
            spec = ["cube", k]
        else:
            ax, ang = _EQ_GENERIC[k - n_c]
            spec = ["axis", ax, ang]
        t2 = _EQ_TRANS[(i // 3) % len(_EQ_TRANS)]
        _FURTHER[i] = (spec, rot_matrix(spec), np.array(t2))
    return _FURTHER[i]


def tlabel(t):
    m = max(abs(float(c)) for c in t)
    if m == 0:
        return "0"
    e = int(math.floor(math.log10(m)))
    return f"{int(m / 10 ** e)}e{e}"


def decade(err):
    if not err > 0:
        return "exact"
    if not math.isfinite(err):
        return "inf"
    return f"1e{int(math.ceil(math.log10(err)))}"


# ---------------------------------------------------------------------------
# template domain
# ---------------------------------------------------------------------------
_DOMAIN = None


def domain():
    """name -> TResidue: all canonical templates + PEPTIDE-patched variants of
    every template with a peptide backbone (these carry N+1 / C-1)."""
    global _DOMAIN
    if _DOMAIN is None:
        _aa, _na, patches, canonical = T.load()
        dom = OrderedDict(canonical)
        for name, res in canonical.items():
            if all(k in res.atoms for k in ("N", "CA", "C")):
                nn = "PEPTIDE-" + name
                dom[nn] = T.apply_patch(res, patches["PEPTIDE"], nn)
        _DOMAIN = dom
    return _DOMAIN


def nearest_bonds(res, atomname):
    """Reference atoms in the order the implementation consults them
    (definitions.DefinitionResidue.get_nearest_bonds): 1-bond neighbours,
    then 2-bond, then 3-bond, each in template bond order, no repeats."""
    atoms = res.atoms
    out = []
    lev2 = []
    for b in atoms[atomname].bonds:
        if b not in out:
            out.append(b)
    for b in atoms[atomname].bonds:
        if b not in atoms:
            continue
        for b2 in atoms[b].bonds:
            if b2 not in out and b2 != atomname:
                out.append(b2)
                lev2.append(b2)
    for l2 in lev2:
        if l2 not in atoms:
            continue
        for b3 in atoms[l2].bonds:
            if b3 not in out:
                out.append(b3)
    return [b for b in out if b in atoms]


def reference_lists(nb, deep):
    """Availability alphabet -> [(class, ordered reference names)]."""
    heavy = [b for b in nb if not b.startswith("H")]
    out = []
    for lst in (nb, heavy):
        out.append(("A", lst[:3]))
    for lst in (nb, heavy):
        for k in range(3):
            out.append(("B", (lst[:k] + lst[k + 1:])[:3]))
    for lst in (nb, heavy):
        out.append(("C", lst[:4]))
        out.append(("C", lst[:5]))
    if deep:
        for tri in itertools.combinations(nb[:6], 3):
            out.append(("D", list(tri)))
        for lst in (nb, heavy):
            out.append(("E", lst))
    return [(c, r) for c, r in out if len(r) >= 3]


def _altitude(xyz):
    """Smallest altitude of a triangle (cheap pre-filter, pure Python)."""
    a, b, c = xyz
    u = [b[i] - a[i] for i in range(3)]
    v = [c[i] - a[i] for i in range(3)]
    w = [c[i] - b[i] for i in range(3)]
    cr = (u[1] * v[2] - u[2] * v[1], u[2] * v[0] - u[0] * v[2],
          u[0] * v[1] - u[1] * v[0])
    area2 = math.sqrt(sum(x * x for x in cr))
    longest = math.sqrt(max(sum(x * x for x in e) for e in (u, v, w)))
    return area2 / longest if longest else 0.0


def sigma2(P):
    P = np.asarray(P, float)
    s = np.linalg.svd(P - P.mean(0), compute_uv=False)
    return float(s[1])


def fit_tuples(deep):
    """Distinct numeric tuples; owner = first (class, template, atom) that
    generates it.  OrderedDict key -> [class, res, atom, refs, n_alias]."""
    found = OrderedDict()
    for rn, res in domain().items():
        xyz = {n: a.xyz for n, a in res.atoms.items()}
        for an in res.atoms:
            if an in PSEUDO:
                continue
            p = xyz[an]
            local = set()
            for cls, refs in reference_lists(nearest_bonds(res, an), deep):
                key = (p, tuple(xyz[r] for r in refs))
                hit = found.get(key)
                if hit is None:
                    found[key] = [cls, rn, an, list(refs), 1]
                    local.add(key)
                elif key not in local:
                    local.add(key)
                    hit[4] += 1
                    if cls < hit[0]:
                        hit[0] = cls
    return found


def tetra_tuples():
    """2-point tuples of Amino.rebuild_tetrahedral: hydrogen whose first
    bonded atom carries exactly three hydrogens and one other (non pseudo)
    neighbour; reference points = [bonded atom, that neighbour]."""
    out = OrderedDict()
    for rn, res in domain().items():
        for an, atom in res.atoms.items():
            if not an.startswith("H") or not atom.bonds:
                continue
            bname = atom.bonds[0]
            if bname not in res.atoms:
                continue
            hcount = 0
            nxt = None
            for b in res.atoms[bname].bonds:
                if b.startswith("H"):
                    hcount += 1
                elif b not in PSEUDO:
                    nxt = b
            if hcount != 3 or nxt is None or nxt not in res.atoms:
                continue
            key = (atom.xyz, res.atoms[bname].xyz, res.atoms[nxt].xyz)
            hit = out.get(key)
            if hit is None:
                out[key] = [rn, an, [bname, nxt], 1]
            else:
                hit[3] += 1
    return out


# ---------------------------------------------------------------------------
# (a) fits
# ---------------------------------------------------------------------------
def _reflect(point, plane_pts):
    """Mirror image of a point through the plane of three points."""
    a, b, c = (np.asarray(v, float) for v in plane_pts[:3])
    n = np.cross(b - a, c - a)
    n = n / np.linalg.norm(n)
    pt = np.asarray(point, float)
    return pt - 2.0 * float((pt - a) @ n) * n


def _planar(P):
    """All reference points in one plane: the mirror image through it is a
    well-defined alternative (improper) superposition."""
    P = np.asarray(P, float)
    s = np.linalg.svd(P - P.mean(0), compute_uv=False)
    return bool(len(s) < 3 or s[2] < 1e-6)


def _rots_for(case, step):
    if "rots" in case:
        specs = [list(s) for s in case["rots"]]
        return specs, np.array([rot_matrix(s) for s in specs])
    return rotation_lattice(step)


def run_fit(case):
    from pdb2pqr import quatfit

    fc = quatfit.find_coordinates
    plan = PLANS[case.get("plan", "full15")]
    explicit = "rots" in case
    res = domain()[case["res"]]
    atom = case["atom"]
    p = np.array(res.atoms[atom].xyz, float)
    specs, Rm = _rots_for(case, plan["step"])
    trans = [list(map(float, t)) for t in case.get("trans", TRANSLATIONS)]
    tarr = np.array(trans)
    labels = [tlabel(t) for t in trans]
    only = case.get("only")  # restrict a replay to one sub-check
    off = int(case.get("eq_offset", 0))
    out = {"evals": 0, "violations": [], "events": {}, "nontrivial": []}
    ev = out["events"]
    seen = set()
    nR, nT = len(specs), len(trans)

    def bump(k, n=1):
        if n:
            ev[k] = ev.get(k, 0) + n

    def violate(sig, detail, mini):
        if sig in seen:
            return
        seen.add(sig)
        out["violations"].append({"sig": sig, "detail": detail, "case": mini})

    i_eq = 1 if nT > 1 else 0
    for refs in case["refsets"]:
        n = len(refs)
        P = np.array([res.atoms[r].xyz for r in refs], float)
        s2 = sigma2(P)
        if s2 < DEGENERATE_SIGMA2:
            bump("fit:skipped-degenerate-reference-points")
            continue
        near = s2 < NEAR_COLLINEAR_SIGMA2
        if near:
            bump("fit:near-collinear-reference-points(sigma2<0.01A)")
        out["nontrivial"].append(f"fit:{case['res']}:{atom}:{','.join(refs)}")
        Pl = P.tolist()
        pl = p.tolist()
        # three non-collinear reference points spanning "the" plane
        nrm = np.cross(P[1] - P[0], P[2] - P[0])
        k3 = 2
        while np.linalg.norm(nrm) < 1e-6 and k3 + 1 < n:
            k3 += 1
            nrm = np.cross(P[1] - P[0], P[k3] - P[0])
        nrm = nrm / np.linalg.norm(nrm)
        planar = _planar(P)
        if abs(float((p - P[0]) @ nrm)) < 0.05:
            bump("fit:placed-atom-in-reference-plane"
                 "(handedness-only-via-probe)")
        # structure = R * template + t ; oracle = R * p + t
        RP = np.einsum("rij,nj->rni", Rm, P)
        S = RP[:, None, :, :] + tarr[None, :, None, :]
        E = (Rm @ p)[:, None, :] + tarr[None, :, :]
        Sl = S.tolist()
        base = {"mode": "fit", "res": case["res"], "atom": atom,
                "plan": case.get("plan", "full15"), "refsets": [list(refs)]}
        got_img = {}
        # ---- 1. exact image ------------------------------------------------
        if only in (None, "image"):
            if plan["product"] or explicit:
                pairs = [(r, t) for r in range(nR) for t in range(nT)]
            else:
                pairs = [(r, (r + off) % nT) for r in range(nR)]
            res_o = np.full((len(pairs), 3), np.nan)
            for i, (r, t) in enumerate(pairs):
                out["evals"] += 1
                try:
                    res_o[i] = fc(n, Sl[r][t], Pl, pl)
                except Exception as exc:  # noqa: BLE001
                    violate(f"C15/fit/raised:{type(exc).__name__}",
                            {"error": str(exc)[:200], "rot": specs[r],
                             "trans": trans[t], "refs": list(refs)},
                            dict(base, rots=[specs[r]], trans=[trans[t]],
                                 only="image"))
            pr = np.array([q[0] for q in pairs])
            pt = np.array([q[1] for q in pairs])
            err = np.linalg.norm(res_o - E[pr, pt], axis=-1)
            err = np.where(np.isnan(err), np.inf, err)
            for i, (r, t) in enumerate(pairs):
                got_img[(r, t)] = res_o[i]
            for t in range(nT):
                m = pt == t
                if not m.any():
                    continue
                bump(f"fit:n={n if n < 6 else '6+'}:t={labels[t]}:"
                     f"worst-error<={decade(float(err[m].max()))}")
                bump(f"fit:ok:t={labels[t]}",
                     int((err[m] <= TOL_FIT).sum()))
            for i in np.nonzero(err > TOL_FIT)[0][:40]:
                r, t = pairs[i]
                got = res_o[i]
                sig = ("C15/fit/error>1e-6/near-collinear-references" if near
                       else f"C15/fit/error>1e-6/translation={labels[t]}")
                if planar and np.all(np.isfinite(got)):
                    Srt = S[r, t]
                    mir = _reflect(E[r, t], [Srt[0], Srt[1], Srt[k3]])
                    if (np.linalg.norm(mir - E[r, t]) > 2 * TOL_FIT
                            and np.linalg.norm(got - mir) <= TOL_FIT):
                        sig = "C15/fit/mirror-image"
                violate(sig,
                        {"template": case["res"], "atom": atom,
                         "refs": list(refs), "rot": specs[r],
                         "trans": trans[t], "observed": got.tolist(),
                         "expected": E[r, t].tolist(),
                         "error_A": float(err[i]),
                         "reference_points_sigma2_A": s2,
                         "failing_in_this_block": int((err > TOL_FIT).sum()),
                         "fits_in_this_block": len(pairs)},
                        dict(base, rots=[specs[r]], trans=[trans[t]],
                             only="image"))
        # ---- 2. handedness probe: a fourth point one A above the plane ----
        if only in (None, "probe"):
            q = P.mean(0) + nrm
            ql = q.tolist()
            rs = [r for r in range(nR)
                  if _selected(specs[r], plan["probe"], explicit)]
            for r in rs:
                out["evals"] += 1
                try:
                    got = np.array(fc(n, Sl[r][i_eq], Pl, ql))
                except Exception:  # noqa: BLE001  (reported by block 1)
                    continue
                want = Rm[r] @ q + tarr[i_eq]
                e = float(np.linalg.norm(got - want))
                if e <= TOL_FIT:
                    bump("fit:probe-ok")
                    continue
                Sr = S[r, i_eq]
                vol = float(np.cross(Sr[1] - Sr[0], Sr[k3] - Sr[0])
                            @ (got - Sr[0]))
                mir = _reflect(want, [Sr[0], Sr[1], Sr[k3]])
                if vol < 0 and np.linalg.norm(got - mir) <= 1e-3:
                    sig = "C15/fit/mirror-image"
                elif near:
                    sig = "C15/fit/error>1e-6/near-collinear-references"
                else:
                    sig = ("C15/fit/error>1e-6/probe-point/translation="
                           f"{labels[i_eq]}")
                violate(sig,
                        {"template": case["res"], "atom": atom,
                         "refs": list(refs), "rot": specs[r],
                         "trans": trans[i_eq], "probe": ql,
                         "observed": got.tolist(), "expected": want.tolist(),
                         "error_A": e, "signed_volume": vol},
                        dict(base, rots=[specs[r]], trans=[trans[i_eq]],
                             only="probe"))
        # ---- 3. a further rigid motion moves the result with it -----------
        if only in (None, "moved"):
            for r in range(nR):
                if not _selected(specs[r], plan["moved"], explicit):
                    continue
                spec2, R2, t2a = further_motion(r + off)
                S2 = S[r, i_eq] @ R2.T + t2a
                try:
                    o1 = got_img.get((r, i_eq))
                    if o1 is None or not np.all(np.isfinite(o1)):
                        out["evals"] += 1
                        o1 = np.array(fc(n, Sl[r][i_eq], Pl, pl))
                    out["evals"] += 1
                    o2 = np.array(fc(n, S2.tolist(), Pl, pl))
                except Exception:  # noqa: BLE001  (reported by block 1)
                    continue
                d_move = float(np.linalg.norm(o2 - (R2 @ o1 + t2a)))
                d_img = float(np.linalg.norm(o2 - (R2 @ E[r, i_eq] + t2a)))
                if d_move <= TOL_EQUIV and d_img <= TOL_FIT:
                    bump("fit:moves-with-structure-ok")
                    continue
                sig = ("C15/fit/does-not-move-with-structure"
                       if d_move > TOL_EQUIV else
                       "C15/fit/error>1e-6/after-further-motion")
                if near:
                    sig = "C15/fit/error>1e-6/near-collinear-references"
                violate(sig,
                        {"template": case["res"], "atom": atom,
                         "refs": list(refs), "rot": specs[r],
                         "trans": trans[i_eq], "further_rot": spec2,
                         "further_trans": t2a.tolist(),
                         "moved_error_A": d_move, "image_error_A": d_img},
                        dict(base, rots=[specs[r]], trans=[trans[i_eq]],
                             only="moved", eq_offset=r + off))
        # ---- 4. same for structures that are not exact images -------------
        if only in (None, "rounded") and plan["rounded"]:
            n_c = len(build.CUBE_ROTATIONS)
            t2a = np.array([10.0, -20.0, 30.0])
            for r in range(nR):
                sp = specs[r]
                if not explicit and not (sp[0] == "axis" and sp[2] % 30 == 0):
                    continue
                Sd = np.round(S[r, i_eq], 3)
                if np.array_equal(Sd, S[r, i_eq]):
                    continue
                k2 = (r + off) % n_c
                R2 = np.array(build.CUBE_ROTATIONS[k2], float)
                S2 = Sd @ R2.T + t2a
                mini = dict(base, rots=[sp], trans=[trans[i_eq]],
                            only="rounded", eq_offset=r + off)
                out["evals"] += 2
                try:
                    o1 = np.array(fc(n, Sd.tolist(), Pl, pl))
                    o2 = np.array(fc(n, S2.tolist(), Pl, pl))
                except Exception as exc:  # noqa: BLE001
                    violate(f"C15/fit/raised:{type(exc).__name__}",
                            {"error": str(exc)[:200], "rot": sp,
                             "rounded": True, "refs": list(refs)}, mini)
                    continue
                d_move = float(np.linalg.norm(o2 - (R2 @ o1 + t2a)))
                if d_move <= TOL_EQUIV:
                    bump("fit:rounded-structure-moves-ok")
                    continue
                violate("C15/fit/error>1e-6/near-collinear-references"
                        if near else
                        "C15/fit/does-not-move-with-structure/"
                        "rounded-structure",
                        {"template": case["res"], "atom": atom,
                         "refs": list(refs), "rot": sp, "trans": trans[i_eq],
                         "further_rot": ["cube", k2],
                         "further_trans": t2a.tolist(),
                         "moved_error_A": d_move}, mini)
    if case.get("aliases"):
        bump("fit:template-tuples-represented", int(case["aliases"]))
    return out


def run_fit2(case):
    """2-point fits of rebuild_tetrahedral: distances to both reference
    points are those of the template."""
    from pdb2pqr import quatfit

    fc = quatfit.find_coordinates
    res = domain()[case["res"]]
    specs, Rm = _rots_for(case, int(case.get("step", 30)))
    trans = [list(map(float, t)) for t in case.get("trans", TRANSLATIONS)]
    tarr = np.array(trans)
    out = {"evals": 0, "violations": [], "events": {}, "nontrivial": []}
    ev = out["events"]
    seen = set()

    def violate(sig, detail, mini):
        if sig not in seen:
            seen.add(sig)
            out["violations"].append(
                {"sig": sig, "detail": detail, "case": mini})

    for atom, refs in case["tuples"]:
        p = np.array(res.atoms[atom].xyz, float)
        P = np.array([res.atoms[r].xyz for r in refs], float)
        want = np.linalg.norm(P - p, axis=1)
        out["nontrivial"].append(f"fit2:{case['res']}:{atom}:{','.join(refs)}")
        S = (np.einsum("rij,nj->rni", Rm, P)[:, None, :, :]
             + tarr[None, :, None, :])
        Sl = S.tolist()
        Pl, pl = P.tolist(), p.tolist()
        for t in range(len(trans)):
            lab = tlabel(trans[t])
            worst = 0.0
            n_ok = 0
            for r in range(len(specs)):
                mini = {"mode": "fit2", "res": case["res"],
                        "tuples": [[atom, refs]], "rots": [specs[r]],
                        "trans": [trans[t]]}
                out["evals"] += 1
                try:
                    o = np.array(fc(2, Sl[r][t], Pl, pl))
                except Exception as exc:  # noqa: BLE001
                    violate(f"C15/fit2/raised:{type(exc).__name__}",
                            {"error": str(exc)[:200]}, mini)
                    continue
                got = np.linalg.norm(S[r, t] - o, axis=1)
                d = float(np.max(np.abs(got - want)))
                if not d <= TOL_DIST:
                    violate("C15/fit2/distance-to-reference-atoms-changed/"
                            f"translation={lab}",
                            {"template": case["res"], "atom": atom,
                             "refs": refs, "rot": specs[r], "trans": trans[t],
                             "distances": got.tolist(),
                             "template_distances": want.tolist()}, mini)
                else:
                    worst = max(worst, d)
                    n_ok += 1
            if n_ok:
                ev[f"fit2:ok:t={lab}"] = ev.get(f"fit2:ok:t={lab}", 0) + n_ok
            k = f"fit2:t={lab}:worst-distance-change<={decade(worst)}"
            ev[k] = ev.get(k, 0) + 1
    if case.get("aliases"):
        ev["fit2:template-tuples-represented"] = int(case["aliases"])
    return out


# ---------------------------------------------------------------------------
# shared oracle for rotations about an axis (vectorised over steps)
# ---------------------------------------------------------------------------
def wrap(a):
    return (a + 180.0) % 360.0 - 180.0


def dihedral_batch(Q):
    """Independent dihedral (degrees, IUPAC sign) for Q of shape (m, 4, 3)."""
    b0 = Q[:, 0] - Q[:, 1]
    b1 = Q[:, 2] - Q[:, 1]
    b2 = Q[:, 3] - Q[:, 2]
    b1 = b1 / np.linalg.norm(b1, axis=1)[:, None]
    v = b0 - np.einsum("ij,ij->i", b0, b1)[:, None] * b1
    w = b2 - np.einsum("ij,ij->i", b2, b1)[:, None] * b1
    x = np.einsum("ij,ij->i", v, w)
    y = np.einsum("ij,ij->i", np.cross(b1, v), w)
    return np.degrees(np.arctan2(y, x))


def rotation_faults(B, A, ib, ic, deltas=None, iref=None, chunk=256):
    """B, A: coordinates before / after each step, shape (m, n, 3).  The step
    is supposed to rotate some atoms about the axis atom ib -> atom ic.
    Returns OrderedDict kind -> (first failing step, detail)."""
    faults = OrderedDict()
    m = B.shape[0]

    def first(kind, bad, detail_fn):
        idx = np.nonzero(bad)[0]
        if len(idx) and kind not in faults:
            i = int(idx[0])
            faults[kind] = (i, detail_fn(i))

    for i_ax, nm in ((ib, "first"), (ic, "second")):
        d0 = np.linalg.norm(B - B[:, i_ax:i_ax + 1], axis=2)
        d1 = np.linalg.norm(A - A[:, i_ax:i_ax + 1], axis=2)
        dd = np.abs(d1 - d0)
        dd = np.where(np.isfinite(dd), dd, np.inf)
        first("axis-distance-changed", dd.max(axis=1) > TOL_DIST,
              lambda i, dd=dd, d0=d0, d1=d1, nm=nm: {
                  "axis_atom": nm, "atom_index": int(np.argmax(dd[i])),
                  "before": float(d0[i, np.argmax(dd[i])]),
                  "after": float(d1[i, np.argmax(dd[i])])})
    moved = (A != B).any(axis=2)
    first("axis-atom-moved", moved[:, ib] | moved[:, ic], lambda i: {})
    sel = moved.copy()
    sel[:, ib] = True
    sel[:, ic] = True
    for s in range(0, m, chunk):
        b, a, w = B[s:s + chunk], A[s:s + chunk], sel[s:s + chunk]
        D0 = np.linalg.norm(b[:, :, None] - b[:, None, :], axis=-1)
        D1 = np.linalg.norm(a[:, :, None] - a[:, None, :], axis=-1)
        diff = np.abs(D1 - D0) * (w[:, :, None] & w[:, None, :])
        diff = np.where(np.isfinite(diff), diff, np.inf)
        worst = diff.reshape(len(b), -1).max(axis=1)
        if "not-rigid" not in faults and (worst > TOL_DIST).any():
            i = int(np.nonzero(worst > TOL_DIST)[0][0])
            faults["not-rigid"] = (s + i, {"max_pair_distance_change":
                                           float(worst[i])})
    u = B[:, ic] - B[:, ib]
    u = u / np.linalg.norm(u, axis=1)[:, None]
    v0 = B - B[:, ib:ib + 1]
    v1 = A - B[:, ib:ib + 1]
    v0 = v0 - np.einsum("mnj,mj->mn", v0, u)[:, :, None] * u[:, None, :]
    v1 = v1 - np.einsum("mnj,mj->mn", v1, u)[:, :, None] * u[:, None, :]
    ang = np.degrees(np.arctan2(
        np.einsum("mnj,mj->mn", np.cross(v0, v1), u),
        np.einsum("mnj,mnj->mn", v0, v1)))
    rad = np.linalg.norm(v0, axis=2)
    valid = moved & (rad > 0.1)
    if deltas is not None:
        offs = np.abs(wrap(ang - np.asarray(deltas, float)[:, None])) * valid
        first("rotation-angle", offs.max(axis=1) > TOL_ANGLE,
              lambda i: {"requested_rotation": float(deltas[i]),
                         "observed_rotation":
                         float(ang[i, np.argmax(offs[i])])})
    elif iref is not None:
        offs = (np.abs(wrap(ang - ang[:, iref:iref + 1])) * valid
                * valid[:, iref:iref + 1])
        first("not-rigid", offs.max(axis=1) > TOL_ANGLE,
              lambda i: {"rotation_of_dihedral_atom": float(ang[i, iref]),
                         "rotation_of_other_atom":
                         float(ang[i, np.argmax(offs[i])])})
    return faults, moved


def _snap(atoms):
    return [[a.x, a.y, a.z] for a in atoms]


# ---------------------------------------------------------------------------
# (b) torsions on real residues
# ---------------------------------------------------------------------------
TORSION_RESIDUES = T.AMINO + ["HID", "HIE", "HIP", "ASH", "GLH", "LYN", "CYM",
                              "CYX", "TYM", "AR0"]
POSITIONS = {"mid": 1, "n": 0, "c": 2}
POSES = [
    (["cube", 0], [0.0, 0.0, 0.0]),
    (["cube", 7], [1e3, -2e3, 5e2]),
    (["axis", [1, 2, 3], 37.0], [9e4, 9e4, -9e4]),
    (["axis", [-2, 1, 3], 101.0], [-9999.999, 9999.999, -9999.999]),
]
LATT5 = [float(a) for a in range(-175, 181, 5)]
_FINE_OFFSETS = (0.01, 0.02, 0.03, 0.04, 0.06, 0.1, 0.5, 1.0, 2.5)
FINE = sorted({s * v for v in _FINE_OFFSETS for s in (1, -1)}
              | {s * (180.0 - v) for v in _FINE_OFFSETS for s in (1, -1)})
BEYOND = [185.0, 270.0, 360.0, 365.0, 540.0, 720.0, -180.0, -185.0, -270.0,
          -360.0, -540.0, 1e-9, -1e-9]

_DEFINITION = None


def _definition():
    global _DEFINITION
    if _DEFINITION is None:
        from pdb2pqr import io as pio

        _DEFINITION = pio.get_definitions()
    return _DEFINITION


def make_residue(x, pos, pose):
    """Real objects, prepared exactly like Debump.debump_biomolecule does
    before it rotates anything.  Returns (biomolecule, debumper, residue)."""
    import io

    from pdb2pqr import biomolecule, cells, debump, pdb

    seq = ["ALA", "ALA", "ALA"]
    idx = POSITIONS[pos]
    seq[idx] = x
    atoms = build.build_peptide(seq, hydrogens=True)
    pdblist, _errs = pdb.read_pdb(io.StringIO(build.pdb_text(atoms)))
    bm = biomolecule.Biomolecule(pdblist, _definition())
    bm.set_termini()
    bm.update_bonds()
    spec, t = POSES[pose]
    if pose:
        R = rot_matrix(spec)
        t = np.array(t)
        for a in bm.atoms:
            v = R @ np.array([a.x, a.y, a.z]) + t
            a.x, a.y, a.z = float(v[0]), float(v[1]), float(v[2])
    d = debump.Debump(bm)
    d.cells = cells.Cells(debump.CELL_SIZE)
    d.cells.assign_cells(bm)
    bm.calculate_dihedral_angles()
    bm.set_donors_acceptors()
    bm.update_internal_bonds()
    bm.set_reference_distance()
    return bm, d, bm.residues[idx]


def transitions(start_step):
    """Ordered (start,target) pairs as one walk over the 5 degree lattice:
    every start on the start lattice with every other target, both ways."""
    if start_step == 5:
        walk = [LATT5[0]]
        for i in range(len(LATT5)):
            for j in range(i + 1, len(LATT5)):
                walk += [LATT5[j], LATT5[i]]
        return walk
    walk = []
    for s in LATT5:
        if int(s) % start_step:
            continue
        walk.append(s)
        for t in LATT5:
            if t != s:
                walk += [t, s]
    return walk


def _angle_bucket(e):
    for b in (1e-9, 1e-6, 1e-3, 0.01, 0.03, 0.05):
        if e <= b:
            return f"{b:g}deg"
    return ">0.05deg"


def run_torsion(case):
    from pdb2pqr import utilities as util

    x, pos, pose, k = case["x"], case["pos"], case.get("pose", 0), case["k"]
    out = {"evals": 0, "violations": [], "events": {}, "nontrivial": []}
    ev = out["events"]
    _bm, deb, res = make_residue(x, pos, pose)
    dihedral = res.reference.dihedrals[k]
    tag = f"{x}:{dihedral.replace(' ', '-')}"
    if case.get("dihedral") not in (None, dihedral):
        raise AssertionError(
            f"template dihedral {k} of {x} is {dihedral!r} for the "
            f"implementation, {case['dihedral']!r} for the reference parser")
    names = dihedral.split()
    if res.dihedrals[k] is None or not all(res.has_atom(n) for n in names):
        ev[f"torsion:not-settable(atom-absent):{tag}"] = 1
        return out
    atoms = list(res.atoms)
    index = {a.name: i for i, a in enumerate(atoms)}
    quad = [index[n] for n in names]
    ib, ic, idd = quad[1], quad[2], quad[3]
    quad_atoms = [atoms[i] for i in quad]
    if "walk" in case:
        walk = [float(a) for a in case["walk"]]
        direct_from = 0
    else:
        walk = transitions(case.get("start_step", 30))
        direct_from = len(walk)
        for i, tgt in enumerate(FINE + BEYOND):
            walk += [LATT5[(i * 7) % len(LATT5)], tgt]
    out["nontrivial"].append(f"torsion:{x}:{pos}:pose{pose}:{dihedral}")

    def mini(i):
        return {"mode": "torsion", "x": x, "pos": pos, "pose": pose, "k": k,
                "dihedral": dihedral, "walk": walk[:i + 1]}

    snaps = [_snap(atoms)]
    stored = []
    direct = {}
    cached = [res.dihedrals[k]]
    for i, target in enumerate(walk):
        out["evals"] += 1
        try:
            deb.set_dihedral_angle(res, k, target)
        except Exception as exc:  # noqa: BLE001
            out["violations"].append({
                "sig": f"C15/torsion/raised:{type(exc).__name__}/{tag}",
                "detail": {"error": str(exc)[:200], "target": target,
                           "cached_before": cached[-1]},
                "case": mini(i)})
            walk = walk[:i]
            break
        snaps.append(_snap(atoms))
        s = res.dihedrals[k]
        stored.append(float("nan") if s is None else float(s))
        cached.append(s)
        if i >= direct_from:
            direct[i] = float(util.dihedral(*[a.coords for a in quad_atoms]))
    if not walk:
        return out
    X = np.array(snaps)
    B, A = X[:-1], X[1:]
    tg = np.array(walk)
    m_ref = dihedral_batch(A[:, quad])
    m_impl = np.array(stored)
    e_ref = np.abs(wrap(m_ref - tg))
    e_impl = np.abs(wrap(m_impl - tg))
    e_impl = np.where(np.isfinite(e_impl), e_impl, np.inf)
    found = []  # (kind, step, detail)

    def first(kind, bad, detail_fn):
        idx = np.nonzero(bad)[0]
        if len(idx):
            found.append((kind, int(idx[0]), detail_fn(int(idx[0]))))

    first("angle-mismatch", e_ref > TOL_ANGLE,
          lambda i: {"target": walk[i],
                     "independent_dihedral": float(m_ref[i]),
                     "stored_utilities.dihedral": float(m_impl[i])})
    first("angle-mismatch(utilities.dihedral-only)",
          (e_ref <= TOL_ANGLE) & (e_impl > TOL_ANGLE),
          lambda i: {"target": walk[i],
                     "independent_dihedral": float(m_ref[i]),
                     "stored_utilities.dihedral": float(m_impl[i])})
    for i, val in direct.items():
        if (abs(wrap(val - walk[i])) > TOL_ANGLE
                and e_ref[i] <= TOL_ANGLE):
            found.append(("angle-mismatch(utilities.dihedral-only)", i,
                          {"target": walk[i],
                           "independent_dihedral": float(m_ref[i]),
                           "utilities.dihedral": val}))
            break
    faults, _moved = rotation_faults(B, A, ib, ic, iref=idd)
    for kind, (i, detail) in faults.items():
        found.append((kind, i, detail))
    seen = set()
    for kind, i, detail in found:
        sig = f"C15/torsion/{kind}/{tag}"
        if sig in seen:
            continue
        seen.add(sig)
        out["violations"].append({
            "sig": sig,
            "detail": dict(detail, residue=x, position=pos, pose=pose,
                           dihedral=dihedral, target=walk[i],
                           previous_target=walk[i - 1] if i else None,
                           cached_before=cached[i]),
            "case": mini(i)})
    ok = (e_ref <= TOL_ANGLE) & (e_impl <= TOL_ANGLE)
    ev[f"torsion:ok:{pos}:pose{pose}"] = int(ok.sum()) if not faults else 0
    worst = float(max(e_ref.max(), e_impl.max()))
    ev[f"torsion:worst-angle-error<={_angle_bucket(worst)}"] = 1
    return out


def run_tetra(case):
    """Residue.rotate_tetrahedral about every bonded pair, driven the way
    Amino.rebuild_tetrahedral drives it: rotate by target - measured."""
    from pdb2pqr import utilities as util

    x, pos, pose = case["x"], case["pos"], case.get("pose", 0)
    out = {"evals": 0, "violations": [], "events": {}, "nontrivial": []}
    ev = out["events"]
    bm, _deb, res = make_residue(x, pos, pose)
    atoms = list(bm.atoms)
    index = {id(a): i for i, a in enumerate(atoms)}
    seen = set()
    if "targets" in case:
        targets = [float(a) for a in case["targets"]]
    elif case.get("lattice", 15) == 5:
        targets = LATT5 + FINE[::3]
    else:
        targets = [a for a in LATT5 if int(a) % 15 == 0] + FINE[::6]
    pairs = []
    for a1 in res.atoms:
        for a2 in a1.bonds:
            if a2.residue is res and any(b is not a1 for b in a2.bonds):
                pairs.append((a1, a2))
    if "pair" in case:
        pairs = [(a1, a2) for a1, a2 in pairs
                 if [a1.name, a2.name] == list(case["pair"])]
    n_ok = 0
    for a1, a2 in pairs:
        tag = f"{x}:{a1.name}-{a2.name}"
        movers = [b for b in a2.bonds if b is not a1]
        ref = next((b for b in a1.bonds if b is not a2), None)
        i1, i2 = index[id(a1)], index[id(a2)]
        home = _snap(atoms)
        out["nontrivial"].append(f"tetra:{x}:{pos}:pose{pose}:"
                                 f"{a1.name}-{a2.name}")
        usable = False
        if ref is not None:
            ang_a = build.angle(ref.coords, a1.coords, a2.coords)
            ang_b = build.angle(a1.coords, a2.coords, movers[0].coords)
            usable = 5.0 < ang_a < 175.0 and 5.0 < ang_b < 175.0
            quad_atoms = [ref, a1, a2, movers[0]]
            quad = [index[id(a)] for a in quad_atoms]

        def mini(i):
            return {"mode": "tetra", "x": x, "pos": pos, "pose": pose,
                    "pair": [a1.name, a2.name], "targets": targets[:i + 1]}

        snaps = [home]
        deltas = []
        measured = []
        if usable:
            measured.append(float(util.dihedral(
                *[a.coords for a in quad_atoms])))
        done = 0
        for i, target in enumerate(targets):
            delta = target - measured[-1] if usable else target
            out["evals"] += 1
            try:
                res.rotate_tetrahedral(a1, a2, delta)
            except Exception as exc:  # noqa: BLE001
                sig = f"C15/tetra/raised:{type(exc).__name__}/{tag}"
                if sig not in seen:
                    seen.add(sig)
                    out["violations"].append({
                        "sig": sig, "detail": {"error": str(exc)[:200]},
                        "case": mini(i)})
                break
            done += 1
            deltas.append(delta)
            snaps.append(_snap(atoms))
            if usable:
                measured.append(float(util.dihedral(
                    *[a.coords for a in quad_atoms])))
        for a, v in zip(atoms, home):
            a.x, a.y, a.z = v
        if not done:
            continue
        X = np.array(snaps)
        B, A = X[:-1], X[1:]
        faults, _moved = rotation_faults(B, A, i1, i2,
                                         deltas=np.array(deltas))
        found = [(kind, i, d) for kind, (i, d) in faults.items()]
        if usable:
            tg = np.array(targets[:done])
            m_ref = dihedral_batch(A[:, quad])
            m_impl = np.array(measured[1:])
            e_ref = np.abs(wrap(m_ref - tg))
            e_impl = np.abs(wrap(m_impl - tg))
            for kind, bad in (
                    ("angle-mismatch", e_ref > TOL_ANGLE),
                    ("angle-mismatch(utilities.dihedral-only)",
                     (e_ref <= TOL_ANGLE) & ~(e_impl <= TOL_ANGLE))):
                idx = np.nonzero(bad)[0]
                if len(idx):
                    i = int(idx[0])
                    found.append((kind, i, {
                        "target": targets[i], "rotated_by": deltas[i],
                        "independent_dihedral": float(m_ref[i]),
                        "utilities.dihedral": float(m_impl[i])}))
        if not found:
            n_ok += done
        for kind, i, detail in found:
            sig = f"C15/tetra/{kind}/{tag}"
            if sig in seen:
                continue
            seen.add(sig)
            out["violations"].append({
                "sig": sig,
                "detail": dict(detail, residue=x, position=pos, pose=pose,
                               axis=[a1.name, a2.name],
                               moved=[b.name for b in movers]),
                "case": mini(i)})
    ev[f"tetra:ok:{pos}:pose{pose}"] = n_ok
    return out


# ---------------------------------------------------------------------------
# quatfit.qchichange directly
# ---------------------------------------------------------------------------
QCHI_SCALES = [1.0, 1.526, 1e-3, 1e4]
QCHI_ANGLES = ([float(a) for a in range(-360, 725, 5)] + FINE
               + [1e-9, -1e-9, 1e-4, 1080.0, -1080.0, 33.3, -77.7, 123.456])
QCHI_ANGLES_SCALED = ([float(a) for a in range(-360, 725, 15)]
                      + [0.01, -179.99, 33.3, -77.7])


def _qchi_points():
    pts = [[1.0, 0.0, 0.0], [0.0, 1.0, 0.0], [0.0, 0.0, 1.0]]
    for v in AXES26:
        for r in (0.5, 10.0):
            u = np.array(v, float)
            pts.append((u / np.linalg.norm(u) * r).tolist())
    pts += [[0.3, -1.1, 2.2], [-4.0, 0.25, 0.5], [0.0, 0.0, 0.0]]
    return pts


def _qchi_block(quatfit, util, axis, pts, angles, n_dihedral):
    """All angles for one axis / point set.  Returns (evals, n_ok, found)
    with found = [(kind, angle, detail)]."""
    P = np.array(pts, float)
    tip = np.array(axis, float)
    tip = tip / np.linalg.norm(tip)
    axl = [float(c) for c in axis]
    Pl = P.tolist()
    found = []
    outs = []
    used = []
    evals = 0
    for angle in angles:
        evals += 1
        try:
            got = np.array(quatfit.qchichange(axl, Pl, angle), float)
        except Exception as exc:  # noqa: BLE001
            found.append((f"raised:{type(exc).__name__}", angle,
                          {"error": str(exc)[:200]}))
            continue
        if got.shape != P.shape:
            found.append(("bad-output", angle, {"shape": list(got.shape)}))
            continue
        outs.append(got)
        used.append(angle)
    if not outs:
        return evals, 0, found
    m = len(outs)
    G = np.array(outs)
    extra = np.array([[0.0, 0.0, 0.0], tip.tolist()])
    B = np.broadcast_to(np.vstack([P, extra]), (m, len(P) + 2, 3))
    A = np.concatenate([G, np.broadcast_to(extra, (m, 2, 3))], axis=1)
    ib, ic = len(P), len(P) + 1
    faults, _moved = rotation_faults(B, A, ib, ic, deltas=np.array(used))
    for kind, (i, d) in faults.items():
        found.append((kind, used[i], d))
    if np.allclose(P[:3], np.eye(3)):
        M = np.transpose(G[:, :3, :], (0, 2, 1))  # columns = images of e_k
        det = np.linalg.det(M)
        bad = np.nonzero(~(np.abs(det - 1.0) <= 1e-6))[0]
        if len(bad):
            found.append(("determinant", used[bad[0]],
                          {"det": float(det[bad[0]])}))
        orth = np.abs(np.einsum("mji,mjk->mik", M, M) - np.eye(3))
        bad = np.nonzero(~(orth.reshape(m, -1).max(axis=1) <= 1e-6))[0]
        if len(bad):
            found.append(("not-orthogonal", used[bad[0]], {}))
        fix = np.linalg.norm(M @ tip - tip, axis=1)
        bad = np.nonzero(~(fix <= TOL_DIST))[0]
        if len(bad):
            found.append(("axis-not-fixed", used[bad[0]], {}))
    # torsion reading: A0, origin, tip, D -> requested change, measured by
    # utilities.dihedral (once per point) and independently
    perp = np.cross(tip, [1.0, 0.0, 0.0])
    if np.linalg.norm(perp) < 0.3:
        perp = np.cross(tip, [0.0, 1.0, 0.0])
    A0 = perp / np.linalg.norm(perp) - 0.4 * tip
    rad = np.linalg.norm(P - np.outer(P @ tip, tip), axis=1)
    picks = [i for i in range(len(P)) if rad[i] > 0.2][:n_dihedral]
    for i in picks:
        Q0 = np.array([A0, [0.0, 0.0, 0.0], tip, P[i]])
        start = float(dihedral_batch(Q0[None])[0])
        Q1 = np.broadcast_to(Q0, (m, 4, 3)).copy()
        Q1[:, 3] = G[:, i]
        want = start + np.array(used)
        d_ref = np.abs(wrap(dihedral_batch(Q1) - want))
        bad = np.nonzero(~(d_ref <= TOL_ANGLE))[0]
        if len(bad):
            found.append(("torsion-change", used[bad[0]],
                          {"requested": used[bad[0]],
                           "off_by_deg": float(d_ref[bad[0]])}))
            continue
        for j in range(m):
            val = float(util.dihedral(A0.tolist(), [0.0, 0.0, 0.0],
                                      tip.tolist(), G[j, i].tolist()))
            if not abs(wrap(val - want[j])) <= TOL_ANGLE:
                found.append(("torsion-change(utilities.dihedral-only)",
                              used[j], {"requested": used[j],
                                        "utilities.dihedral": val,
                                        "expected": float(wrap(want[j]))}))
                break
    bad_angles = {a for _k, a, _d in found}
    return evals, len([a for a in used if a not in bad_angles]), found


def run_qchi(case):
    from pdb2pqr import quatfit
    from pdb2pqr import utilities as util

    out = {"evals": 0, "violations": [], "events": {}, "nontrivial": []}
    seen = set()
    n_ok = 0

    def report(found, detail, mini_fn):
        for kind, angle, d in found:
            sig = f"C15/qchichange/{kind}"
            if sig in seen:
                continue
            seen.add(sig)
            out["violations"].append({
                "sig": sig, "detail": dict(d, angle=angle, **detail),
                "case": mini_fn(angle)})

    if case["mode"] == "qchi":
        pts = _qchi_points()
        for scale in case.get("scales", QCHI_SCALES):
            axis = [c * scale for c in case["axis"]]
            out["nontrivial"].append(f"qchi:axis={case['axis']}:x{scale:g}")
            angles = case.get("angles", QCHI_ANGLES if scale == 1.0
                              else QCHI_ANGLES_SCALED)
            evals, ok, found = _qchi_block(quatfit, util, axis, pts, angles,
                                           1)
            out["evals"] += evals
            n_ok += ok
            report(found, {"axis": axis},
                   lambda a, scale=scale: {"mode": "qchi",
                                           "axis": case["axis"],
                                           "scales": [scale], "angles": [a]})
    else:  # template bond axes
        res = domain()[case["res"]]
        names = [n for n in res.atoms]
        X = np.array([res.atoms[n].xyz for n in names], float)
        pairs = [(a, b) for a in names for b in res.atoms[a].bonds
                 if b in res.atoms]
        if "pair" in case:
            pairs = [tuple(case["pair"])]
        step = int(case.get("lattice", 15))
        angles = case.get("angles",
                          [a for a in LATT5 if int(a) % step == 0])
        for a, b in pairs:
            o = X[names.index(a)]
            axis = (X[names.index(b)] - o).tolist()
            pts = (X - o).tolist()
            out["nontrivial"].append(f"qchi:{case['res']}:{a}-{b}")
            evals, ok, found = _qchi_block(quatfit, util, axis, pts, angles,
                                           0)
            out["evals"] += evals
            n_ok += ok
            report(found, {"template": case["res"], "axis_bond": [a, b]},
                   lambda ang, a=a, b=b: {"mode": "qchi-bond",
                                          "res": case["res"],
                                          "pair": [a, b], "angles": [ang]})
    out["events"][f"{case['mode']}:ok"] = n_ok
    return out


# ---------------------------------------------------------------------------
# engine interface
# ---------------------------------------------------------------------------
def worker_init():
    domain()
    rotation_lattice(15)


# synthetic templates with exactly representable coordinates: planar and
# axis-aligned (isosceles triangle, kite, rectangle), a right-angled corner
# and one generic tetrahedron.  Under the 24 cube rotations the correlation
# matrix takes its degenerate forms (zero diagonal, equal eigenvalues).
EXACT_TEMPLATES = {
    "isosceles": [(-1.0, 0.0, 0.0), (1.0, 0.0, 0.0), (0.0, 2.0, 0.0)],
    "kite": [(-1.0, 0.0, 0.0), (1.0, 0.0, 0.0), (0.0, 2.0, 0.0),
             (0.0, -0.5, 0.0)],
    "rectangle": [(-2.0, -1.0, 0.0), (2.0, -1.0, 0.0), (2.0, 1.0, 0.0),
                  (-2.0, 1.0, 0.0)],
    "corner": [(0.0, 0.0, 0.0), (1.5, 0.0, 0.0), (0.0, 0.75, 0.0)],
    "tetra": [(0.0, 0.0, 0.0), (1.5, 0.0, 0.0), (0.25, 1.25, 0.0),
              (0.5, 0.5, 1.0)],
}
EXACT_PROBES = [(0.5, 0.25, 1.0), (0.0, 0.0, -1.5), (2.0, -1.0, 0.5)]
EXACT_SHIFTS = [(0.0, 0.0, 0.0), (8.0, -16.0, 32.0), (-1024.0, 512.0, 256.0)]


def run_exact(case):
    import numpy as np

    from pdb2pqr import quatfit

    res = {"evals": 0, "violations": [], "events": {}, "nontrivial": []}
    T0 = np.array(EXACT_TEMPLATES[case["template"]])
    seen = set()
    for ri, R in enumerate(build_cube_rotations()):
        for shift in EXACT_SHIFTS:
            S = (R @ T0.T).T + np.array(shift)
            for probe in EXACT_PROBES:
                want = R @ np.array(probe) + np.array(shift)
                got = quatfit.find_coordinates(
                    len(T0), [list(map(float, p)) for p in S],
                    [list(map(float, p)) for p in T0], list(probe))
                res["evals"] += 1
                err = float(np.linalg.norm(np.array(got) - want))
                if err > 1e-6:
                    sig = (f"C15/exact/{case['template']}/error>1e-6/"
                           f"rotation-class:{_rot_class(R)}")
                    if sig not in seen:
                        seen.add(sig)
                        res["violations"].append({
                            "sig": sig, "detail": {
                                "rotation": R.tolist(), "shift": list(shift),
                                "probe": list(probe), "error": err,
                                "got": list(map(float, got)),
                                "want": want.tolist()}})
        res["nontrivial"].append(f"exact:{case['template']}:rot{ri}")
    return res


def build_cube_rotations():
    from .. import build as _b

    return _b.CUBE_ROTATIONS


def _rot_class(R):
    import numpy as np

    tr = int(round(float(np.trace(R))))
    return {3: "identity", 1: "quarter-turn", -1: "half-turn",
            0: "third-turn"}.get(tr, str(tr))


def run_case(case):
    mode = case["mode"]
    if mode == "exact":
        return run_exact(case)
    if mode == "fit":
        return run_fit(case)
    if mode == "fit2":
        return run_fit2(case)
    if mode == "torsion":
        return run_torsion(case)
    if mode == "tetra":
        return run_tetra(case)
    if mode in ("qchi", "qchi-bond"):
        return run_qchi(case)
    raise ValueError(mode)


def enumerate_cases(tier, seed):
    thorough = tier == "thorough"
    cases = [{"mode": "exact", "template": t} for t in EXACT_TEMPLATES]
    _aa, _na, _patches, canonical = T.load()
    # -- qchichange directly (cheapest, simplest first)
    for ax in AXES26:
        cases.append({"mode": "qchi", "axis": ax})
    for rn in (list(canonical) if thorough else list(_aa) + list(_na)):
        cases.append({"mode": "qchi-bond", "res": rn,
                      "lattice": 5 if thorough else 15})
    # -- fits: one case per (class, template, atom) owning distinct tuples
    trans = TRANSLATIONS + ([TRANSLATION_PDBMAX] if thorough else [])
    plan_of = ({"A": "full5", "B": "full15", "C": "prod30", "D": "lite30",
                "D!": "prod30", "E": "lite30"} if thorough else
               {"A": "full15", "B": "lite60", "C": "lite60", "D!": "prod30"})
    grouped = OrderedDict()
    dom = domain()
    for cls, rn, an, refs, n_alias in fit_tuples(True).values():
        if cls == "D":
            xyz = [dom[rn].atoms[r].xyz for r in refs]
            if _altitude(xyz) < 4 * STRATUM_SIGMA2 and (
                    sigma2(xyz) < STRATUM_SIGMA2):
                cls = "D!"
        if cls not in plan_of:
            continue
        c = grouped.setdefault((cls, rn, an), {
            "mode": "fit", "res": rn, "atom": an, "class": cls,
            "plan": plan_of[cls], "refsets": [], "aliases": 0,
            "trans": trans})
        c["refsets"].append(refs)
        c["aliases"] += n_alias
    cases += sorted(grouped.values(), key=lambda c: c["class"])
    by_res = OrderedDict()
    for rn, an, refs, n_alias in tetra_tuples().values():
        c = by_res.setdefault(rn, {"mode": "fit2", "res": rn, "tuples": [],
                                   "aliases": 0,
                                   "step": 15 if thorough else 30,
                                   "trans": trans})
        c["tuples"].append([an, refs])
        c["aliases"] += n_alias
    cases += list(by_res.values())
    # -- torsions
    extra_pose = 1 + seed % (len(POSES) - 1)
    if thorough:
        combos = ([("mid", 0, 5), ("n", 0, 30), ("c", 0, 30)]
                  + [("mid", pose, 30) for pose in (1, 2, 3)]
                  + [(pos, pose, 180) for pos in ("n", "c")
                     for pose in (1, 2, 3)])
        tet = [(pos, pose, 5 if pose == 0 else 15)
               for pos in ("mid", "n", "c") for pose in (0, 1, 2, 3)]
    else:
        combos = [("mid", 0, 30), ("n", 0, 180), ("c", 0, 180),
                  ("mid", extra_pose, 180)]
        tet = [("mid", 0, 15), ("n", 0, 15), ("c", 0, 15),
               ("mid", extra_pose, 15)]
    for pos, pose, step in combos:
        for x in TORSION_RESIDUES:
            for k, dh in enumerate(canonical[x].dihedrals):
                cases.append({"mode": "torsion", "x": x, "pos": pos,
                              "pose": pose, "k": k, "dihedral": dh,
                              "start_step": step})
    for pos, pose, lattice in tet:
        for x in TORSION_RESIDUES:
            cases.append({"mode": "tetra", "x": x, "pos": pos, "pose": pose,
                          "lattice": lattice})
    return _interleave(engine.rotate(cases, seed) if seed else cases)


def _cost(case):
    """Rough relative cost (number of real-code calls, weighted) used only to
    spread the work evenly over the pool's chunks."""
    mode = case["mode"]
    if mode == "fit":
        plan = PLANS[case["plan"]]
        n_rot = 24 + 13 * (360 // plan["step"] - 1)
        n_t = len(case["trans"]) if plan["product"] else 1
        per = n_rot * n_t
        for key in ("probe", "moved"):
            per += {"all": n_rot, "sub30": 155, "cube": 24, "none": 0}[
                plan[key]]
        per += 262 if plan["rounded"] else 0
        return sum(per * (0.7 + 0.1 * len(r)) for r in case["refsets"])
    if mode == "fit2":
        return 0.6 * len(case["tuples"]) * len(case["trans"]) * (
            24 + 13 * (360 // case["step"] - 1))
    if mode == "torsion":
        starts = {5: 36, 15: 24, 30: 12, 180: 2}[case["start_step"]]
        return 4.0 * (starts * 143 + 98)
    if mode == "tetra":
        return 2.5 * 30 * (84 if case["lattice"] == 5 else 30)
    if mode == "qchi":
        return 2000.0
    return 20.0 * (72 if case.get("lattice") == 5 else 24)


def _interleave(cases):
    """Deterministic permutation: the engine hands out consecutive chunks, so
    deal the cases (most expensive first) round-robin over the chunks.  All
    cases always run (no time cap), the order carries no meaning."""
    n = len(cases)
    size = max(1, min(32, n // (engine.NPROC * 8) or 1))
    n_chunks = -(-n // size)
    order = sorted(range(n), key=lambda i: (-_cost(cases[i]), i))
    chunks = [[] for _ in range(n_chunks)]
    for rank, i in enumerate(order):
        chunks[rank % n_chunks].append(cases[i])
    # chunks must be contiguous runs of exactly `size` cases (last shorter)
    full = [c for c in chunks if len(c) == size]
    rest = [c for c in chunks if len(c) != size]
    out = [c for ch in full for c in ch]
    tail = [c for ch in rest for c in ch]
    return out + tail
