"""C15 - rigid-body fitting reproduces exact placements; torsion setting is a
proper rotation about the axis that lands on the requested angle.

Direct seams (no pipeline run): quatfit.find_coordinates, quatfit.qchichange,
Debump.set_dihedral_angle, Residue.rotate_tetrahedral, utilities.dihedral.

(a) fits.  Domain = every placement tuple the topology data can generate:
    every atom of every canonical residue template (AA.xml, NA.xml, all
    PATCHES.xml variants, plus the PEPTIDE-patched variants that carry the
    N+1 / C-1 pseudo atoms) x the reference atoms the implementation would
    pick for it ("first three available" in get_nearest_bonds order, re-derived
    here on the independently parsed templates) under a complete availability
    alphabet (everything present; heavy atoms only; any one of the first three
    missing; thorough: every 3-subsequence of the first six), plus 4-, 5- and
    all-neighbour fits.  Tuples that are numerically identical (same ordered
    coordinates) are executed once and counted for every template they stand
    for.  Each tuple x rotation lattice x translation list: the structure is
    R*template+t, the oracle is R*p+t (numpy), the mirror image through the
    plane of the reference points is recognised explicitly, a fourth
    out-of-plane probe point pins the handedness even for in-plane atoms, and
    a further rigid motion of the structure must move the result with it
    (also for structures that are not exact images: rounded to 3 decimals).
(b) torsions.  Real Residue objects (X at a chain position of ALA/X/ALA built
    with hydrogens, read with pdb.read_pdb, prepared like
    Debump.debump_biomolecule does): every template dihedral x every ordered
    pair (start, target) of the angle lattice through
    Debump.set_dihedral_angle; every bonded ordered atom pair x target
    lattice through Residue.rotate_tetrahedral (used the way
    Amino.rebuild_tetrahedral does: rotate by target - measured);
    quatfit.qchichange directly on lattice axes / template bond axes.
    Oracle: utilities.dihedral and an independent atan2 dihedral both read the
    target (0.05 deg, mod 360); every atom keeps its distance to both axis
    atoms (1e-6 A); the moved atoms are one rigid, proper (det +1) rotation.
"""

import itertools
import math
from collections import OrderedDict

import numpy as np

from .. import build, engine
from ..refs import templates as T

PROPERTY = "C15"
LEVEL = "exploration"
RULE = (
    "every case of: fit (distinct numeric placement tuple = ordered template "
    "reference coordinates + template position of the placed atom, over all "
    "canonical and PEPTIDE-patched templates and the availability alphabet) "
    "x rotation lattice (24 cube rotations incl. identity, 13 lattice axes x "
    "angle multiples) x translations; fit2 (every tetrahedral 2-point tuple "
    "of Amino.rebuild_tetrahedral); torsion (residue x chain position x pose "
    "x template dihedral x ordered (start,target) angle pairs); tetra (every "
    "ordered bonded atom pair x target lattice); qchi (lattice axes x scales "
    "x angles, template bond axes).  non-trivial = distinct (template, atom, "
    "reference list) tuples, (residue, position, dihedral) and (residue, "
    "position, axis bond) combinations that were executed and measured"
)
ASSUMPTIONS = [
    "SO(3), R^3 and the angle circle are explored on lattices (cube "
    "rotations, 13 axes x angle multiples, 4-5 translations up to 9e4 A, "
    "5 degree angle lattice plus fine values next to 0 and 180): "
    "'exploration', complete inside the lattice and over the complete "
    "template domain",
    "non-degenerate = second singular value of the centred reference points "
    ">= 2e-3 A (no tuple of the template domain is below it); the structure "
    "coordinates are the double-precision image R*x+t, i.e. an exact image "
    "up to 1.5e-11 A representation error at 9e4 A offsets, far inside the "
    "property's 1e-6 A",
    "'moves with the structure' is checked with 2e-6 A (two placements, each "
    "allowed 1e-6 A) for exact images and for 3-decimal rounded structures "
    "moved by cube rotations and integer translations (exact in floating "
    "point)",
    "2-point fits (rebuild_tetrahedral) are outside the >=3 point clause; "
    "only what every rigid superposition of two points guarantees is "
    "demanded: the placed atom keeps its template distance to both reference "
    "atoms",
    "the torsion clause is read for Debump.set_dihedral_angle literally and "
    "for Residue.rotate_tetrahedral through its caller's idiom (rotate by "
    "target - utilities.dihedral); 'distances to the axis atoms unchanged' is "
    "checked for every atom of the residue, and the moved atoms additionally "
    "have to be one rigid proper rotation (pairwise distances kept, same "
    "signed rotation angle about the axis)",
    "dihedrals whose atoms are not all in the residue (cached angle None: "
    "ASH HD1, TYM HH) cannot be set by the implementation and are counted, "
    "not judged; canonical names that are regex artefacts of the patch "
    "mechanism (NWAT, CWAT ...) keep bonds to absent atoms, those bonds are "
    "ignored",
]
BOUND = {
    "quick": "fits: all distinct tuples of the 1-deviation availability "
    "alphabet (all present / heavy only / one of the first three missing / "
    "4, 5, all neighbours) over 359 templates x (24 cube rotations + 13 axes "
    "x multiples of 15 deg) x 4 translations (max 9e4 A) + handedness probe "
    "+ further rigid motion + rounded-structure equivariance; all 2-point "
    "tetrahedral tuples; torsions: every template dihedral of 30 residue "
    "states mid-chain, every (start on 15 deg lattice, target on 5 deg "
    "lattice) pair both ways + fine/out-of-range targets, chain-end "
    "positions and one seed-chosen rigid pose on a 60 deg start lattice; "
    "rotate_tetrahedral: every ordered bonded pair x 72 targets; qchichange: "
    "26 lattice axes x 4 scales x 5 deg multiples in [-360,720] + fine, and "
    "all template bond axes of the base templates",
    "thorough": "quick with angle multiples of 5 deg for the fits, a fifth "
    "translation (PDB maximum 9999.999), every 3-subsequence of the first "
    "six neighbours on the 15 deg lattice, every ordered (start,target) pair "
    "of the 5 deg lattice for the torsions at all three chain positions and "
    "three rigid poses",
}

TOL_FIT = 1e-6
TOL_EQUIV = 2e-6
TOL_DIST = 1e-6
TOL_ANGLE = 0.05
DEGENERATE_SIGMA2 = 2e-3

PSEUDO = ("N+1", "C-1")

# ---------------------------------------------------------------------------
# lattices
# ---------------------------------------------------------------------------
AXES13 = []
for _v in itertools.product((0, 1, -1), repeat=3):
    if _v == (0, 0, 0):
        continue
    _first = next(c for c in _v if c != 0)
    if _first > 0:
        AXES13.append(list(_v))
AXES13.sort(key=lambda v: (sum(abs(c) for c in v), [-c for c in v]))
assert len(AXES13) == 13
AXES26 = AXES13 + [[-c for c in v] for v in AXES13]

TRANSLATIONS = [[0.0, 0.0, 0.0], [1.0, 2.0, 3.0], [1e3, -2e3, 5e2],
                [9e4, 9e4, -9e4]]
TRANSLATION_PDBMAX = [9999.999, -9999.999, 9999.999]


def rodrigues(axis, deg):
    u = np.asarray(axis, float)
    u = u / np.linalg.norm(u)
    a = math.radians(deg)
    K = np.array([[0.0, -u[2], u[1]], [u[2], 0.0, -u[0]],
                  [-u[1], u[0], 0.0]])
    return np.eye(3) + math.sin(a) * K + (1.0 - math.cos(a)) * (K @ K)


def rot_matrix(spec):
    """spec: ["cube", k] | ["axis", [x, y, z], degrees]."""
    if spec[0] == "cube":
        return np.array(build.CUBE_ROTATIONS[spec[1]], float)
    if spec[0] == "axis":
        return rodrigues(spec[1], spec[2])
    raise ValueError(spec)


def _is_cube(M):
    return bool(np.all(np.minimum(np.abs(M), np.abs(np.abs(M) - 1.0)) < 1e-9))


_LATTICES = {}


def rotation_lattice(step):
    """24 cube rotations (identity first) + 13 axes x multiples of `step`
    degrees; axis rotations that coincide with a cube rotation are dropped."""
    if step not in _LATTICES:
        specs = [["cube", k] for k in range(24)]
        for ang in range(step, 360, step):
            for ax in AXES13:
                if not _is_cube(rodrigues(ax, ang)):
                    specs.append(["axis", ax, ang])
        mats = np.array([rot_matrix(s) for s in specs])
        _LATTICES[step] = (specs, mats)
    return _LATTICES[step]


# further rigid motions for "the result moves with the structure"
_EQ_GENERIC = [([1, 2, 3], 37.0), ([-2, 1, 3], 101.0), ([3, -1, 2], 163.0),
               ([1, -3, -2], 251.0), ([2, 3, -1], 319.0)]
_EQ_TRANS = [[0.0, 0.0, 0.0], [-3.0, 5.0, 7.0], [250.0, -125.0, 60.0],
             [-4e4, 3e4, 2e4]]


_FURTHER = {}


def further_motion(i):
    """Deterministic further rigid motion number i: (spec, R2, t2)."""
    if i not in _FURTHER:
        n_c = len(build.CUBE_ROTATIONS)
        k = i % (n_c + len(_EQ_GENERIC))
        if k < n_c:
            spec = ["cube", k]
        else:
            ax, ang = _EQ_GENERIC[k - n_c]
            spec = ["axis", ax, ang]
        t2 = _EQ_TRANS[(i // 3) % len(_EQ_TRANS)]
        _FURTHER[i] = (spec, rot_matrix(spec), np.array(t2))
    return _FURTHER[i]


def tlabel(t):
    m = max(abs(float(c)) for c in t)
    if m == 0:
        return "0"
    e = int(math.floor(math.log10(m)))
    return f"{int(m / 10 ** e)}e{e}"


def decade(err):
    if err <= 0:
        return "exact"
    return f"1e{int(math.ceil(math.log10(err)))}"


# ---------------------------------------------------------------------------
# template domain
# ---------------------------------------------------------------------------
_DOMAIN = None


def domain():
    """name -> TResidue: all canonical templates + PEPTIDE-patched variants of
    every template with a peptide backbone (these carry N+1 / C-1)."""
    global _DOMAIN
    if _DOMAIN is None:
        _aa, _na, patches, canonical = T.load()
        dom = OrderedDict(canonical)
        for name, res in canonical.items():
            if all(k in res.atoms for k in ("N", "CA", "C")):
                nn = "PEPTIDE-" + name
                dom[nn] = T.apply_patch(res, patches["PEPTIDE"], nn)
        _DOMAIN = dom
    return _DOMAIN


def nearest_bonds(res, atomname):
    """Reference atoms in the order the implementation consults them
    (definitions.DefinitionResidue.get_nearest_bonds): 1-bond neighbours,
    then 2-bond, then 3-bond, each in template bond order, no repeats."""
    atoms = res.atoms
    out = []
    lev2 = []
    for b in atoms[atomname].bonds:
        if b not in out:
            out.append(b)
    for b in atoms[atomname].bonds:
        if b not in atoms:
            continue
        for b2 in atoms[b].bonds:
            if b2 not in out and b2 != atomname:
                out.append(b2)
                lev2.append(b2)
    for l2 in lev2:
        if l2 not in atoms:
            continue
        for b3 in atoms[l2].bonds:
            if b3 not in out:
                out.append(b3)
    return [b for b in out if b in atoms]


def reference_lists(nb, tier_deep):
    """Availability alphabet -> ordered reference name lists."""
    out = []
    seen = set()

    def add(names):
        names = tuple(names)
        if len(names) >= 3 and names not in seen:
            seen.add(names)
            out.append(names)

    heavy = [b for b in nb if not b.startswith("H")]
    for lst in (nb, heavy):
        add(lst[:3])
    for lst in (nb, heavy):
        for k in range(3):
            add((lst[:k] + lst[k + 1:])[:3])
    for lst in (nb, heavy):
        add(lst[:4])
        add(lst[:5])
        add(lst)
    deep = []
    if tier_deep:
        for tri in itertools.combinations(nb[:6], 3):
            if tri not in seen:
                seen.add(tri)
                deep.append(tri)
    return out, deep


def sigma2(P):
    P = np.asarray(P, float)
    s = np.linalg.svd(P - P.mean(0), compute_uv=False)
    return float(s[1])


def fit_tuples(deep):
    """Distinct numeric tuples, owner = first template that generates it.
    Returns (base, extra): OrderedDict key -> [res, atom, refs, n_alias]."""
    base = OrderedDict()
    extra = OrderedDict()
    for rn, res in domain().items():
        xyz = {n: a.xyz for n, a in res.atoms.items()}
        for an in res.atoms:
            if an in PSEUDO:
                continue
            nb = nearest_bonds(res, an)
            lists, deeper = reference_lists(nb, deep)
            p = xyz[an]
            for store, group in ((base, lists), (extra, deeper)):
                for refs in group:
                    key = (p, tuple(xyz[r] for r in refs))
                    hit = base.get(key) or store.get(key)
                    if hit is None:
                        store[key] = [rn, an, list(refs), 1]
                    else:
                        hit[3] += 1
    return base, extra


def tetra_tuples():
    """2-point tuples of Amino.rebuild_tetrahedral: hydrogen whose first
    bonded atom carries exactly three hydrogens and one other (non pseudo)
    neighbour; reference points = [bonded atom, that neighbour]."""
    out = OrderedDict()
    for rn, res in domain().items():
        for an, atom in res.atoms.items():
            if not an.startswith("H") or not atom.bonds:
                continue
            bname = atom.bonds[0]
            if bname not in res.atoms:
                continue
            hcount = 0
            nxt = None
            for b in res.atoms[bname].bonds:
                if b.startswith("H"):
                    hcount += 1
                elif b not in PSEUDO:
                    nxt = b
            if hcount != 3 or nxt is None or nxt not in res.atoms:
                continue
            key = (atom.xyz, res.atoms[bname].xyz, res.atoms[nxt].xyz)
            hit = out.get(key)
            if hit is None:
                out[key] = [rn, an, [bname, nxt], 1]
            else:
                hit[3] += 1
    return out


# ---------------------------------------------------------------------------
# (a) fits
# ---------------------------------------------------------------------------
def _reflect(points, plane_pts):
    """Mirror image of `points` through the plane of three points."""
    a, b, c = (np.asarray(v, float) for v in plane_pts[:3])
    n = np.cross(b - a, c - a)
    n = n / np.linalg.norm(n)
    pts = np.asarray(points, float)
    return pts - 2.0 * np.outer((pts - a) @ n, n).reshape(pts.shape)


def _rots_for(case):
    if "rots" in case:
        specs = [list(s) for s in case["rots"]]
        return specs, np.array([rot_matrix(s) for s in specs])
    return rotation_lattice(int(case.get("step", 15)))


def _min_case(case, **kw):
    c = {k: v for k, v in case.items() if k in ("mode", "res", "atom")}
    c.update(kw)
    return c


def run_fit(case):
    from pdb2pqr import quatfit

    fc = quatfit.find_coordinates
    res = domain()[case["res"]]
    atom = case["atom"]
    p = np.array(res.atoms[atom].xyz, float)
    specs, Rm = _rots_for(case)
    trans = [list(map(float, t)) for t in case.get("trans", TRANSLATIONS)]
    tarr = np.array(trans)
    labels = [tlabel(t) for t in trans]
    only = case.get("only")  # restrict replay to one sub-check
    out = {"evals": 0, "violations": [], "events": {}, "nontrivial": []}
    ev = out["events"]
    seen = set()

    def bump(k, n=1):
        ev[k] = ev.get(k, 0) + n

    def violate(sig, detail, mini):
        if sig in seen:
            return
        seen.add(sig)
        out["violations"].append({"sig": sig, "detail": detail, "case": mini})

    nR = len(specs)
    i_eq = 1 if len(trans) > 1 else 0
    for refs in case["refsets"]:
        n = len(refs)
        P = np.array([res.atoms[r].xyz for r in refs], float)
        s2 = sigma2(P)
        if s2 < DEGENERATE_SIGMA2:
            bump("fit:skipped-degenerate-reference-points")
            continue
        out["nontrivial"].append(f"fit:{case['res']}:{atom}:{','.join(refs)}")
        Pl = P.tolist()
        pl = p.tolist()
        # three non-collinear reference points spanning "the" plane
        nrm = np.cross(P[1] - P[0], P[2] - P[0])
        k3 = 2
        while np.linalg.norm(nrm) < 1e-6 and k3 + 1 < n:
            k3 += 1
            nrm = np.cross(P[1] - P[0], P[k3] - P[0])
        nrm = nrm / np.linalg.norm(nrm)
        planar = n == 3 or s2_planar(P)
        # structure = R * template + t ; oracle = R * p + t
        RP = np.einsum("rij,nj->rni", Rm, P)
        S = RP[:, None, :, :] + tarr[None, :, None, :]
        E = (Rm @ p)[:, None, :] + tarr[None, :, :]
        Sl = S.tolist()
        base = _min_case(case, refsets=[list(refs)])
        # ---- 1. exact image ------------------------------------------------
        if only in (None, "image"):
            res_o = np.empty_like(E)
            failed = None
            for r in range(nR):
                row = Sl[r]
                for t in range(len(trans)):
                    try:
                        res_o[r, t] = fc(n, row[t], Pl, pl)
                    except Exception as exc:  # noqa: BLE001
                        failed = (r, t, exc)
                        res_o[r, t] = np.nan
                    out["evals"] += 1
            if failed is not None:
                r, t, exc = failed
                violate(f"C15/fit/raised:{type(exc).__name__}",
                        {"error": str(exc)[:200], "rot": specs[r],
                         "trans": trans[t], "refs": list(refs)},
                        dict(base, rots=[specs[r]], trans=[trans[t]],
                             only="image"))
            err = np.linalg.norm(res_o - E, axis=-1)
            err = np.where(np.isnan(err), np.inf, err)
            # height of the placed atom above the reference plane (n == 3)
            for t in range(len(trans)):
                col = err[:, t]
                bump(f"fit:n={min(n, 6)}{'+' if n > 6 else ''}:t={labels[t]}:"
                     f"worst-error<={decade(float(col.max()))}")
                bad = np.nonzero(col > TOL_FIT)[0]
                if len(bad) == 0:
                    bump(f"fit:ok:t={labels[t]}", nR)
                    continue
                bump(f"fit:ok:t={labels[t]}", nR - len(bad))
                for r in bad[:50]:
                    got = res_o[r, t]
                    kind = "error>1e-6"
                    if planar:
                        Srt = S[r, t]
                        mir = _reflect(E[r, t], [Srt[0], Srt[1], Srt[k3]])
                        off_plane = np.linalg.norm(mir - E[r, t]) / 2.0
                        if (off_plane > TOL_FIT
                                and np.linalg.norm(got - mir) <= TOL_FIT):
                            kind = "mirror-image"
                    sig = (f"C15/fit/mirror-image" if kind == "mirror-image"
                           else f"C15/fit/error>1e-6/translation={labels[t]}")
                    violate(sig,
                            {"template": case["res"], "atom": atom,
                             "refs": list(refs), "rot": specs[r],
                             "trans": trans[t], "observed": got.tolist(),
                             "expected": E[r, t].tolist(),
                             "error_A": float(col[r])},
                            dict(base, rots=[specs[r]], trans=[trans[t]],
                                 only="image"))
        # ---- 2. handedness probe: a fourth point one A above the plane ----
        q = P.mean(0) + nrm
        ql = q.tolist()
        if abs(float((p - P[0]) @ nrm)) < 0.05:
            bump("fit:placed-atom-in-reference-plane(handedness-only-via-probe)")
        if only in (None, "probe"):
            Eq = (Rm @ q) + tarr[i_eq]
            got = np.empty_like(Eq)
            for r in range(nR):
                try:
                    got[r] = fc(n, Sl[r][i_eq], Pl, ql)
                except Exception:  # noqa: BLE001  (reported by block 1)
                    got[r] = np.nan
                out["evals"] += 1
            err = np.linalg.norm(got - Eq, axis=-1)
            err = np.where(np.isnan(err), np.inf, err)
            bad = np.nonzero(err > TOL_FIT)[0]
            bump("fit:probe-ok", nR - len(bad))
            for r in bad[:50]:
                # handedness: signed volume of (S1-S0, S2-S0, probe-S0)
                Sr = S[r, i_eq]
                vol = float(np.cross(Sr[1] - Sr[0], Sr[k3] - Sr[0])
                            @ (got[r] - Sr[0])) if np.all(
                                np.isfinite(got[r])) else 0.0
                mir = _reflect(Eq[r], [Sr[0], Sr[1], Sr[k3]])
                if vol < 0 and np.linalg.norm(got[r] - mir) <= 1e-3:
                    sig = "C15/fit/mirror-image"
                else:
                    sig = ("C15/fit/error>1e-6/probe-point/translation="
                           f"{labels[i_eq]}")
                violate(sig,
                        {"template": case["res"], "atom": atom,
                         "refs": list(refs), "rot": specs[r],
                         "trans": trans[i_eq], "probe": ql,
                         "observed": got[r].tolist(),
                         "expected": Eq[r].tolist(),
                         "error_A": float(err[r]), "signed_volume": vol},
                        dict(base, rots=[specs[r]], trans=[trans[i_eq]],
                             only="probe"))
        # ---- 3. a further rigid motion moves the result with it -----------
        if only in (None, "moved"):
            for r in range(nR):
                spec2, R2, t2a = further_motion(r + case.get("eq_offset", 0))
                t2 = t2a.tolist()
                S1 = S[r, i_eq]
                S2 = S1 @ R2.T + t2a
                try:
                    o1 = np.array(fc(n, Sl[r][i_eq], Pl, pl))
                    o2 = np.array(fc(n, S2.tolist(), Pl, pl))
                except Exception:  # noqa: BLE001  (reported by block 1)
                    out["evals"] += 2
                    continue
                out["evals"] += 2
                d_move = float(np.linalg.norm(o2 - (R2 @ o1 + t2a)))
                d_img = float(np.linalg.norm(o2 - (R2 @ E[r, i_eq] + t2a)))
                if d_move > TOL_EQUIV or d_img > TOL_FIT:
                    sig = ("C15/fit/does-not-move-with-structure"
                           if d_move > TOL_EQUIV else
                           "C15/fit/error>1e-6/translation="
                           + tlabel(R2 @ tarr[i_eq] + t2a))
                    violate(sig,
                            {"template": case["res"], "atom": atom,
                             "refs": list(refs), "rot": specs[r],
                             "trans": trans[i_eq], "further_rot": spec2,
                             "further_trans": t2, "moved_error_A": d_move,
                             "image_error_A": d_img},
                            dict(base, rots=[specs[r]], trans=[trans[i_eq]],
                                 only="moved",
                                 eq_offset=r + case.get("eq_offset", 0)))
                else:
                    bump("fit:moves-with-structure-ok")
        # ---- 4. same for structures that are not exact images -------------
        if only in (None, "rounded"):
            n_c = len(build.CUBE_ROTATIONS)
            for r in range(nR):
                sp = specs[r]
                if "rots" not in case and not (
                        sp[0] == "axis" and sp[2] % 30 == 0):
                    continue
                Sd = np.round(S[r, i_eq], 3)
                if np.array_equal(Sd, S[r, i_eq]):
                    continue
                k2 = (r + case.get("eq_offset", 0)) % n_c
                R2 = np.array(build.CUBE_ROTATIONS[k2], float)
                t2a = np.array([10.0, -20.0, 30.0])
                S2 = Sd @ R2.T + t2a
                try:
                    o1 = np.array(fc(n, Sd.tolist(), Pl, pl))
                    o2 = np.array(fc(n, S2.tolist(), Pl, pl))
                except Exception as exc:  # noqa: BLE001
                    out["evals"] += 2
                    violate(f"C15/fit/raised:{type(exc).__name__}",
                            {"error": str(exc)[:200], "rot": sp,
                             "rounded": True, "refs": list(refs)},
                            dict(base, rots=[sp], trans=[trans[i_eq]],
                                 only="rounded",
                                 eq_offset=r + case.get("eq_offset", 0)))
                    continue
                out["evals"] += 2
                d_move = float(np.linalg.norm(o2 - (R2 @ o1 + t2a)))
                # sanity of the fit itself (not judged: not an exact image)
                if d_move > TOL_EQUIV:
                    violate("C15/fit/does-not-move-with-structure/"
                            "rounded-structure",
                            {"template": case["res"], "atom": atom,
                             "refs": list(refs), "rot": sp,
                             "trans": trans[i_eq], "further_rot": ["cube", k2],
                             "further_trans": t2a.tolist(),
                             "moved_error_A": d_move},
                            dict(base, rots=[sp], trans=[trans[i_eq]],
                                 only="rounded",
                                 eq_offset=r + case.get("eq_offset", 0)))
                else:
                    bump("fit:rounded-structure-moves-ok")
    if case.get("aliases"):
        bump("fit:template-tuples-represented", int(case["aliases"]))
    return out


def s2_planar(P):
    """True when all reference points lie in one plane (mirror image through
    that plane is then a well-defined alternative superposition)."""
    P = np.asarray(P, float)
    s = np.linalg.svd(P - P.mean(0), compute_uv=False)
    return bool(s[2] < 1e-6)


def run_fit2(case):
    """2-point fits of rebuild_tetrahedral: distances to both reference
    points are those of the template."""
    from pdb2pqr import quatfit

    fc = quatfit.find_coordinates
    res = domain()[case["res"]]
    specs, Rm = _rots_for(case)
    trans = [list(map(float, t)) for t in case.get("trans", TRANSLATIONS)]
    tarr = np.array(trans)
    out = {"evals": 0, "violations": [], "events": {}, "nontrivial": []}
    ev = out["events"]
    seen = set()
    for atom, refs in case["tuples"]:
        p = np.array(res.atoms[atom].xyz, float)
        P = np.array([res.atoms[r].xyz for r in refs], float)
        want = np.linalg.norm(P - p, axis=1)
        out["nontrivial"].append(f"fit2:{case['res']}:{atom}:{','.join(refs)}")
        S = (np.einsum("rij,nj->rni", Rm, P)[:, None, :, :]
             + tarr[None, :, None, :])
        Sl = S.tolist()
        Pl, pl = P.tolist(), p.tolist()
        for t in range(len(trans)):
            lab = tlabel(trans[t])
            worst = 0.0
            for r in range(len(specs)):
                out["evals"] += 1
                try:
                    o = np.array(fc(2, Sl[r][t], Pl, pl))
                except Exception as exc:  # noqa: BLE001
                    sig = f"C15/fit2/raised:{type(exc).__name__}"
                    if sig not in seen:
                        seen.add(sig)
                        out["violations"].append({
                            "sig": sig, "detail": {"error": str(exc)[:200]},
                            "case": dict(case, tuples=[[atom, refs]],
                                         rots=[specs[r]], trans=[trans[t]])})
                    continue
                got = np.linalg.norm(S[r, t] - o, axis=1)
                d = float(np.max(np.abs(got - want)))
                worst = max(worst, d)
                if d > TOL_DIST:
                    sig = ("C15/fit2/distance-to-reference-atoms-changed/"
                           f"translation={lab}")
                    if sig not in seen:
                        seen.add(sig)
                        out["violations"].append({
                            "sig": sig,
                            "detail": {"template": case["res"], "atom": atom,
                                       "refs": refs, "rot": specs[r],
                                       "trans": trans[t],
                                       "distances": got.tolist(),
                                       "template_distances": want.tolist()},
                            "case": dict(case, tuples=[[atom, refs]],
                                         rots=[specs[r]], trans=[trans[t]])})
                else:
                    ev[f"fit2:ok:t={lab}"] = ev.get(f"fit2:ok:t={lab}", 0) + 1
            k = f"fit2:t={lab}:worst-distance-change<={decade(worst)}"
            ev[k] = ev.get(k, 0) + 1
    if case.get("aliases"):
        ev["fit2:template-tuples-represented"] = int(case["aliases"])
    return out


# ---------------------------------------------------------------------------
# (b) torsions on real residues
# ---------------------------------------------------------------------------
TORSION_RESIDUES = T.AMINO + ["HID", "HIE", "HIP", "ASH", "GLH", "LYN", "CYM",
                              "CYX", "TYM", "AR0"]
POSITIONS = {"mid": 1, "n": 0, "c": 2}
POSES = [
    (["cube", 0], [0.0, 0.0, 0.0]),
    (["cube", 7], [1e3, -2e3, 5e2]),
    (["axis", [1, 2, 3], 37.0], [9e4, 9e4, -9e4]),
    (["axis", [-2, 1, 3], 101.0], [-9999.999, 9999.999, -9999.999]),
]
LATT5 = [float(a) for a in range(-175, 181, 5)]
FINE = sorted({s * v for v in (0.01, 0.02, 0.03, 0.04, 0.06, 0.1, 0.5, 1.0,
                               2.5) for s in (1, -1)}
              | {s * (180.0 - v) for v in (0.01, 0.02, 0.03, 0.04, 0.06, 0.1,
                                           0.5, 1.0, 2.5) for s in (1, -1)})
BEYOND = [185.0, 270.0, 360.0, 365.0, 540.0, 720.0, -180.0, -185.0, -270.0,
          -360.0, -540.0, 1e-9, -1e-9]

_DEFINITION = None


def _definition():
    global _DEFINITION
    if _DEFINITION is None:
        from pdb2pqr import io as pio

        _DEFINITION = pio.get_definitions()
    return _DEFINITION


def make_residue(x, pos, pose):
    """Real objects, prepared exactly like Debump.debump_biomolecule does
    before it rotates anything.  Returns (biomolecule, debumper, residue)."""
    import io

    from pdb2pqr import biomolecule, cells, debump, pdb

    seq = ["ALA", "ALA", "ALA"]
    idx = POSITIONS[pos]
    seq[idx] = x
    atoms = build.build_peptide(seq, hydrogens=True)
    pdblist, _errs = pdb.read_pdb(io.StringIO(build.pdb_text(atoms)))
    bm = biomolecule.Biomolecule(pdblist, _definition())
    bm.set_termini()
    bm.update_bonds()
    spec, t = POSES[pose]
    if pose:
        R = rot_matrix(spec)
        t = np.array(t)
        for a in bm.atoms:
            v = R @ np.array([a.x, a.y, a.z]) + t
            a.x, a.y, a.z = float(v[0]), float(v[1]), float(v[2])
    d = debump.Debump(bm)
    d.cells = cells.Cells(debump.CELL_SIZE)
    d.cells.assign_cells(bm)
    bm.calculate_dihedral_angles()
    bm.set_donors_acceptors()
    bm.update_internal_bonds()
    bm.set_reference_distance()
    return bm, d, bm.residues[idx]


def wrap(a):
    return (a + 180.0) % 360.0 - 180.0


def signed_rotation(before, after, b, c):
    """Signed rotation angle (degrees, right-handed about b->c) of each point
    and its distance from the axis."""
    u = c - b
    u = u / np.linalg.norm(u)
    v0 = before - b
    v1 = after - b
    v0 = v0 - np.outer(v0 @ u, u)
    v1 = v1 - np.outer(v1 @ u, u)
    ang = np.degrees(np.arctan2(np.cross(v0, v1) @ u,
                                np.einsum("ij,ij->i", v0, v1)))
    return ang, np.linalg.norm(v0, axis=1)


def rotation_faults(before, after, ib, ic, delta):
    """Generic oracle for 'a set of atoms was rotated about the axis b->c by
    delta degrees'.  Returns list of (kind, detail)."""
    faults = []
    for i_ax, nm in ((ib, "first"), (ic, "second")):
        d0 = np.linalg.norm(before - before[i_ax], axis=1)
        d1 = np.linalg.norm(after - after[i_ax], axis=1)
        dd = np.abs(d1 - d0)
        k = int(np.argmax(dd))
        if dd[k] > TOL_DIST:
            faults.append(("axis-distance-changed",
                           {"axis_atom": nm, "atom_index": k,
                            "before": float(d0[k]), "after": float(d1[k])}))
    moved = np.nonzero(np.max(np.abs(after - before), axis=1) > 0)[0]
    if ib in moved or ic in moved:
        faults.append(("axis-atom-moved", {}))
    if len(moved):
        idx = list(moved) + [ib, ic]
        X0, X1 = before[idx], after[idx]
        D0 = np.linalg.norm(X0[:, None] - X0[None], axis=-1)
        D1 = np.linalg.norm(X1[:, None] - X1[None], axis=-1)
        if float(np.max(np.abs(D1 - D0))) > TOL_DIST:
            faults.append(("not-rigid",
                           {"max_pair_distance_change":
                            float(np.max(np.abs(D1 - D0)))}))
        ang, rad = signed_rotation(before[moved], after[moved],
                                   before[ib], before[ic])
        far = rad > 0.1
        if delta is not None and np.any(far):
            off = np.abs(wrap(ang[far] - delta))
            if float(off.max()) > TOL_ANGLE:
                k = int(np.argmax(off))
                faults.append(("rotation-angle",
                               {"requested_rotation": delta,
                                "observed_rotation": float(ang[far][k])}))
    return faults, len(moved)


def _snap(atoms):
    return np.array([[a.x, a.y, a.z] for a in atoms])


def transitions(start_step):
    """Ordered (start,target) pairs as one walk over the 5 degree lattice:
    every start on the start lattice with every other target, both ways."""
    if start_step == 5:
        walk = [LATT5[0]]
        for i in range(len(LATT5)):
            for j in range(i + 1, len(LATT5)):
                walk += [LATT5[j], LATT5[i]]
        return walk
    walk = []
    for s in LATT5:
        if int(s) % start_step:
            continue
        walk.append(s)
        for t in LATT5:
            if t != s:
                walk += [t, s]
    return walk


def run_torsion(case):
    from pdb2pqr import utilities as util

    x, pos, pose, k = case["x"], case["pos"], case.get("pose", 0), case["k"]
    out = {"evals": 0, "violations": [], "events": {}, "nontrivial": []}
    ev = out["events"]
    _bm, deb, res = make_residue(x, pos, pose)
    dihedral = res.reference.dihedrals[k]
    tag = f"{x}:{dihedral.replace(' ', '-')}"
    if case.get("dihedral") not in (None, dihedral):
        raise AssertionError(
            f"template dihedral {k} of {x} is {dihedral!r} for the "
            f"implementation, {case['dihedral']!r} for the reference parser")
    names = dihedral.split()
    if res.dihedrals[k] is None or not all(res.has_atom(n) for n in names):
        ev[f"torsion:not-settable(atom-absent):{tag}"] = 1
        return out
    atoms = list(res.atoms)
    index = {a.name: i for i, a in enumerate(atoms)}
    ia, ib, ic, idd = (index[n] for n in names)
    if "walk" in case:
        walk = [float(a) for a in case["walk"]]
    else:
        walk = transitions(case.get("start_step", 15))
        if case.get("extras", True):
            for i, tgt in enumerate(FINE + BEYOND):
                walk += [LATT5[(i * 7) % len(LATT5)], tgt]
    seen = set()
    out["nontrivial"].append(f"torsion:{x}:{pos}:pose{pose}:{dihedral}")
    prev = None
    n_ok = 0
    worst = 0.0
    for target in walk:
        before = _snap(atoms)
        cached = res.dihedrals[k]
        try:
            deb.set_dihedral_angle(res, k, target)
        except Exception as exc:  # noqa: BLE001
            sig = f"C15/torsion/raised:{type(exc).__name__}/{tag}"
            if sig not in seen:
                seen.add(sig)
                out["violations"].append({
                    "sig": sig, "detail": {"error": str(exc)[:200],
                                           "target": target, "from": prev},
                    "case": dict(case, walk=[a for a in (prev, target)
                                             if a is not None])})
            out["evals"] += 1
            break
        out["evals"] += 1
        after = _snap(atoms)
        quad = [after[i] for i in (ia, ib, ic, idd)]
        m_impl = float(util.dihedral(*[list(map(float, v)) for v in quad]))
        m_ref = build.dihedral(*quad)
        faults = []
        e_impl = abs(wrap(m_impl - target))
        e_ref = abs(wrap(m_ref - target))
        worst = max(worst, e_impl, e_ref)
        if e_ref > TOL_ANGLE:
            faults.append(("angle-mismatch",
                           {"target": target, "independent_dihedral": m_ref,
                            "utilities.dihedral": m_impl}))
        elif e_impl > TOL_ANGLE:
            faults.append(("angle-mismatch(utilities.dihedral-only)",
                           {"target": target, "independent_dihedral": m_ref,
                            "utilities.dihedral": m_impl}))
        stored = res.dihedrals[k]
        if stored is None or abs(wrap(stored - target)) > TOL_ANGLE:
            faults.append(("stored-angle-mismatch",
                           {"target": target, "stored": stored}))
        more, n_moved = rotation_faults(before, after, ib, ic, None)
        faults += more
        if not faults:
            n_ok += 1
        for kind, detail in faults:
            sig = f"C15/torsion/{kind}/{tag}"
            if sig in seen:
                continue
            seen.add(sig)
            detail = dict(detail, residue=x, position=pos, pose=pose,
                          dihedral=dihedral, previous_target=prev,
                          cached_before=cached)
            out["violations"].append({
                "sig": sig, "detail": detail,
                "case": dict(case, extras=False,
                             walk=[a for a in (prev, target)
                                   if a is not None])})
        prev = target
    ev[f"torsion:ok:{pos}:pose{pose}"] = n_ok
    ev[f"torsion:worst-angle-error<={_angle_bucket(worst)}"] = 1
    return out


def _angle_bucket(e):
    for b in (1e-9, 1e-6, 1e-3, 0.01, 0.03, 0.05):
        if e <= b:
            return f"{b:g}deg"
    return ">0.05deg"


def run_tetra(case):
    """Residue.rotate_tetrahedral about every bonded pair, driven the way
    Amino.rebuild_tetrahedral drives it: rotate by target - measured."""
    from pdb2pqr import utilities as util

    x, pos, pose = case["x"], case["pos"], case.get("pose", 0)
    out = {"evals": 0, "violations": [], "events": {}, "nontrivial": []}
    ev = out["events"]
    bm, _deb, res = make_residue(x, pos, pose)
    atoms = list(bm.atoms)
    index = {id(a): i for i, a in enumerate(atoms)}
    seen = set()
    targets = [float(a) for a in case.get("targets", LATT5 + FINE[::3])]
    pairs = []
    for a1 in res.atoms:
        for a2 in a1.bonds:
            if a2.residue is res and any(b is not a1 for b in a2.bonds):
                pairs.append((a1, a2))
    if "pair" in case:
        pairs = [(a1, a2) for a1, a2 in pairs
                 if [a1.name, a2.name] == list(case["pair"])]
    n_ok = 0
    for a1, a2 in pairs:
        tag = f"{x}:{a1.name}-{a2.name}"
        movers = [b for b in a2.bonds if b is not a1]
        ref = next((b for b in a1.bonds if b is not a2), None)
        i1, i2 = index[id(a1)], index[id(a2)]
        home = _snap(atoms)
        out["nontrivial"].append(f"tetra:{x}:{pos}:pose{pose}:"
                                 f"{a1.name}-{a2.name}")
        usable = False
        if ref is not None:
            ang_a = build.angle(home[index[id(ref)]], home[i1], home[i2])
            ang_b = build.angle(home[i1], home[i2], home[index[id(movers[0])]])
            usable = 5.0 < ang_a < 175.0 and 5.0 < ang_b < 175.0
        for target in targets:
            before = _snap(atoms)
            if usable:
                measured = float(util.dihedral(ref.coords, a1.coords,
                                               a2.coords, movers[0].coords))
                delta = target - measured
            else:
                delta = target
            try:
                res.rotate_tetrahedral(a1, a2, delta)
            except Exception as exc:  # noqa: BLE001
                sig = f"C15/tetra/raised:{type(exc).__name__}/{tag}"
                if sig not in seen:
                    seen.add(sig)
                    out["violations"].append({
                        "sig": sig, "detail": {"error": str(exc)[:200]},
                        "case": dict(case, pair=[a1.name, a2.name],
                                     targets=[target])})
                out["evals"] += 1
                break
            out["evals"] += 1
            after = _snap(atoms)
            faults, _n = rotation_faults(before, after, i1, i2, delta)
            if usable:
                quad = [after[index[id(ref)]], after[i1], after[i2],
                        after[index[id(movers[0])]]]
                m_impl = float(util.dihedral(
                    *[list(map(float, v)) for v in quad]))
                m_ref = build.dihedral(*quad)
                if abs(wrap(m_ref - target)) > TOL_ANGLE:
                    faults.append(("angle-mismatch",
                                   {"target": target, "rotated_by": delta,
                                    "independent_dihedral": m_ref,
                                    "utilities.dihedral": m_impl}))
                elif abs(wrap(m_impl - target)) > TOL_ANGLE:
                    faults.append(("angle-mismatch(utilities.dihedral-only)",
                                   {"target": target, "rotated_by": delta,
                                    "independent_dihedral": m_ref,
                                    "utilities.dihedral": m_impl}))
            if not faults:
                n_ok += 1
            for kind, detail in faults:
                sig = f"C15/tetra/{kind}/{tag}"
                if sig in seen:
                    continue
                seen.add(sig)
                out["violations"].append({
                    "sig": sig,
                    "detail": dict(detail, residue=x, position=pos, pose=pose,
                                   axis=[a1.name, a2.name],
                                   moved=[b.name for b in movers]),
                    "case": dict(case, pair=[a1.name, a2.name],
                                 targets=[target])})
        for a, v in zip(atoms, home):
            a.x, a.y, a.z = float(v[0]), float(v[1]), float(v[2])
    ev[f"tetra:ok:{pos}:pose{pose}"] = n_ok
    return out


# ---------------------------------------------------------------------------
# quatfit.qchichange directly
# ---------------------------------------------------------------------------
QCHI_SCALES = [1.0, 1.526, 1e-3, 1e4]
QCHI_ANGLES = ([float(a) for a in range(-360, 725, 5)] + FINE
               + [1e-9, -1e-9, 1e-4, 1080.0, -1080.0, 33.3, -77.7, 123.456])


def _qchi_points():
    pts = [[1.0, 0.0, 0.0], [0.0, 1.0, 0.0], [0.0, 0.0, 1.0]]
    for v in AXES26:
        for r in (0.5, 1.5, 10.0):
            u = np.array(v, float)
            pts.append((u / np.linalg.norm(u) * r).tolist())
    pts += [[0.3, -1.1, 2.2], [-4.0, 0.25, 0.5], [0.0, 0.0, 0.0]]
    return pts


def _qchi_check(qchichange, axis, pts, angle, util, n_dihedral):
    """One call; returns (faults, evals)."""
    P = np.array(pts, float)
    got = np.array(qchichange(list(map(float, axis)), P.tolist(), angle))
    faults = []
    if got.shape != P.shape or not np.all(np.isfinite(got)):
        return [("bad-output", {"shape": list(got.shape)})]
    origin = np.zeros(3)
    tip = np.array(axis, float)
    tip = tip / np.linalg.norm(tip)
    before = np.vstack([P, origin, tip])
    after = np.vstack([got, origin, tip])
    ib, ic = len(P), len(P) + 1
    more, _n = rotation_faults(before, after, ib, ic, angle)
    faults += more
    # rotation matrix from the images of e1, e2, e3 (first three points)
    if np.allclose(P[:3], np.eye(3)):
        M = got[:3].T
        det = float(np.linalg.det(M))
        if abs(det - 1.0) > 1e-6:
            faults.append(("determinant", {"det": det}))
        if float(np.max(np.abs(M.T @ M - np.eye(3)))) > 1e-6:
            faults.append(("not-orthogonal", {}))
        if float(np.linalg.norm(M @ tip - tip)) > TOL_DIST:
            faults.append(("axis-not-fixed", {}))
    # the torsion reading of the rotation: A, origin, tip, D
    perp = np.cross(tip, [1.0, 0.0, 0.0])
    if np.linalg.norm(perp) < 0.3:
        perp = np.cross(tip, [0.0, 1.0, 0.0])
    A = perp / np.linalg.norm(perp) - 0.4 * tip
    done = 0
    for i in range(len(P)):
        if done >= n_dihedral:
            break
        v = P[i] - (P[i] @ tip) * tip
        if np.linalg.norm(v) < 0.2:
            continue
        done += 1
        quad0 = [A.tolist(), [0.0, 0.0, 0.0], tip.tolist(), P[i].tolist()]
        quad1 = quad0[:3] + [got[i].tolist()]
        want = build.dihedral(*quad0) + angle
        d_impl = wrap(util.dihedral(*quad1) - want)
        d_ref = wrap(build.dihedral(*quad1) - want)
        if abs(d_ref) > TOL_ANGLE:
            faults.append(("torsion-change", {"requested": angle,
                                              "off_by_deg": float(d_ref)}))
            break
        if abs(d_impl) > TOL_ANGLE:
            faults.append(("torsion-change(utilities.dihedral-only)",
                           {"requested": angle, "off_by_deg": float(d_impl)}))
            break
    return faults


def run_qchi(case):
    from pdb2pqr import quatfit
    from pdb2pqr import utilities as util

    out = {"evals": 0, "violations": [], "events": {}, "nontrivial": []}
    seen = set()
    n_ok = 0

    def report(kind, detail, mini):
        sig = f"C15/qchichange/{kind}"
        if sig in seen:
            return
        seen.add(sig)
        out["violations"].append({"sig": sig, "detail": detail, "case": mini})

    if case["mode"] == "qchi":
        pts = _qchi_points()
        for scale in case.get("scales", QCHI_SCALES):
            axis = [c * scale for c in case["axis"]]
            out["nontrivial"].append(f"qchi:axis={case['axis']}:x{scale:g}")
            for angle in case.get("angles", QCHI_ANGLES):
                out["evals"] += 1
                try:
                    faults = _qchi_check(quatfit.qchichange, axis, pts, angle,
                                         util, 2)
                except Exception as exc:  # noqa: BLE001
                    faults = [(f"raised:{type(exc).__name__}",
                               {"error": str(exc)[:200]})]
                if not faults:
                    n_ok += 1
                for kind, detail in faults:
                    report(kind, dict(detail, axis=axis, angle=angle),
                           dict(case, scales=[scale], angles=[angle]))
    else:  # template bond axes
        res = domain()[case["res"]]
        names = [n for n in res.atoms]
        X = np.array([res.atoms[n].xyz for n in names], float)
        pairs = [(a, b) for a in names for b in res.atoms[a].bonds
                 if b in res.atoms]
        if "pair" in case:
            pairs = [tuple(case["pair"])]
        for a, b in pairs:
            o = X[names.index(a)]
            axis = (X[names.index(b)] - o).tolist()
            pts = (X - o).tolist()
            out["nontrivial"].append(f"qchi:{case['res']}:{a}-{b}")
            for angle in case.get("angles", LATT5):
                out["evals"] += 1
                try:
                    faults = _qchi_check(quatfit.qchichange, axis, pts, angle,
                                         util, 1)
                except Exception as exc:  # noqa: BLE001
                    faults = [(f"raised:{type(exc).__name__}",
                               {"error": str(exc)[:200]})]
                if not faults:
                    n_ok += 1
                for kind, detail in faults:
                    report(kind, dict(detail, template=case["res"],
                                      axis_bond=[a, b], angle=angle),
                           dict(case, pair=[a, b], angles=[angle]))
    out["events"][f"{case['mode']}:ok"] = n_ok
    return out


# ---------------------------------------------------------------------------
# engine interface
# ---------------------------------------------------------------------------
def worker_init():
    domain()
    rotation_lattice(15)


def run_case(case):
    mode = case["mode"]
    if mode == "fit":
        return run_fit(case)
    if mode == "fit2":
        return run_fit2(case)
    if mode == "torsion":
        return run_torsion(case)
    if mode == "tetra":
        return run_tetra(case)
    if mode in ("qchi", "qchi-bond"):
        return run_qchi(case)
    raise ValueError(mode)


def _group(tuples, **kw):
    """One case per (template, atom) owning at least one distinct tuple."""
    by = OrderedDict()
    for rn, an, refs, n_alias in tuples.values():
        c = by.setdefault((rn, an), dict(mode="fit", res=rn, atom=an,
                                         refsets=[], aliases=0, **kw))
        c["refsets"].append(refs)
        c["aliases"] += n_alias
    return list(by.values())


def enumerate_cases(tier, seed):
    thorough = tier == "thorough"
    cases = []
    # -- qchichange directly (cheapest, simplest first)
    for ax in AXES26:
        cases.append({"mode": "qchi", "axis": ax})
    _aa, _na, _patches, canonical = T.load()
    bond_templates = [n for n in list(_aa) + list(_na)]
    if thorough:
        bond_templates = [n for n in canonical]
    for rn in bond_templates:
        cases.append({"mode": "qchi-bond", "res": rn})
    # -- fits
    base, extra = fit_tuples(deep=thorough)
    trans = TRANSLATIONS + ([TRANSLATION_PDBMAX] if thorough else [])
    fit_cases = _group(base, step=5 if thorough else 15, trans=trans)
    fit_cases += _group(extra, step=15, trans=trans)
    cases += fit_cases
    by_res = OrderedDict()
    for rn, an, refs, n_alias in tetra_tuples().values():
        c = by_res.setdefault(rn, {"mode": "fit2", "res": rn, "tuples": [],
                                   "aliases": 0, "step": 15, "trans": trans})
        c["tuples"].append([an, refs])
        c["aliases"] += n_alias
    cases += list(by_res.values())
    # -- torsions
    extra_pose = 1 + seed % (len(POSES) - 1)
    for x in TORSION_RESIDUES:
        tmpl = canonical[x]
        if thorough:
            combos = [(pos, pose, 5 if pose == 0 else 30)
                      for pos in ("mid", "n", "c") for pose in (0, 1, 2, 3)]
        else:
            combos = [("mid", 0, 15), ("n", 0, 60), ("c", 0, 60),
                      ("mid", extra_pose, 60)]
        for pos, pose, step in combos:
            for k, dh in enumerate(tmpl.dihedrals):
                cases.append({"mode": "torsion", "x": x, "pos": pos,
                              "pose": pose, "k": k, "dihedral": dh,
                              "start_step": step})
        tet = ([(pos, pose) for pos in ("mid", "n", "c")
                for pose in (0, 1, 2, 3)] if thorough else
               [("mid", 0), ("n", 0), ("c", 0), ("mid", extra_pose)])
        for pos, pose in tet:
            cases.append({"mode": "tetra", "x": x, "pos": pos, "pose": pose})
    return engine.rotate(cases, seed) if seed else cases
