"""C10 - mmCIF and PDB encodings of one structure give the same result.

Structures x all 2^7 subsets of {alternate locations, insertion codes, formal
charges, four-character atom names, two models, negative numbering, HETATM
waters} x {AMBER, PARSE} x {default, --clean}: the structure is written as PDB
and, by an independent writer, as mmCIF; both are run through the real
pipeline and must yield the same multiset of (atom name, residue name, number,
x, y, z, charge, radius).  Failing feature sets are delta-minimised.
"""

import itertools

import numpy as np

from .. import build, corpus, engine, pipeline
from ..pdbfmt import atom_line, ter_line
from ..refs import pqr_ref

PROPERTY = "C10"
LEVEL = "model_checking"
RULE = (
    "case = (structure, force field, option set): all 128 feature subsets "
    "are generated in both encodings and run; failures are reduced to a "
    "minimal failing feature set (signature).  non-trivial = distinct "
    "(structure, feature subset, force field, option set) pairs of runs "
    "that were compared"
)
ASSUMPTIONS = [
    "only the installed mmcif_pdbx version (2.1.0) can be executed in the "
    "sealed sandbox; 'any supported version of the dependency' is addressed "
    "only in so far as the reader no longer depends on how that version "
    "returns missing-value markers",
    "the mmCIF twin is written by the harness: mandatory non-atom categories "
    "are copied from the bundled tests/data/1FAS.cif, atom_site is generated",
]
BOUND = {
    "quick": "3 structures x 128 feature subsets x {AMBER, PARSE} x {default, "
    "--clean}; every generated mmCIF file has a loop layout of its own "
    "(item order, *_esd items, optional items left out) and one of three "
    "header variants (wwPDB header, none, unknown-value markers)",
    "thorough": "4 structures (adds the nucleic strand) x 128 subsets x 6 force fields x 4 option sets",
}
FEATURES = ["altloc", "icode", "charge", "name4", "models", "negative",
            "waters"]
KEEP = {"entry", "struct_keywords", "pdbx_database_status", "struct",
        "entity", "exptl", "audit_author", "cell", "symmetry", "atom_sites",
        "database_PDB_matrix", "audit_conform"}
_HEAD = None
# model serial numbers of multi-model entries: an ensemble subset numbered 9,
# 10 (file order is not the lexicographic order of the numbers)
MODEL0 = 9


def cif_header(variant=0):
    """variant 0: the header categories of a wwPDB entry (copied from
    1FAS.cif); 1: none at all (files written by modelling programs carry
    the coordinates only); 2: the wwPDB header with unknown-value markers in
    items the structure does not depend on."""
    global _HEAD
    if variant == 1:
        return "data_VERIF\n#\n"
    if variant == 2:
        text = cif_header(0)
        out = []
        for line in text.splitlines():
            w = line.split()
            if len(w) == 2 and w[0] in ("_cell.Z_PDB", "_exptl.crystals_number",
                                        "_symmetry.Int_Tables_number"):
                line = f"{w[0]} ?"
            out.append(line)
        return "\n".join(out) + "\n"
    if _HEAD is None:
        text = (engine.REPO / "tests/data/1FAS.cif").read_text()
        sections = text.split("\n#")
        out = [sections[0]]  # data_ line
        for sec in sections[1:]:
            cat = None
            for line in sec.splitlines():
                line = line.strip()
                if line.startswith("_"):
                    cat = line[1:].split(".")[0]
                    break
            if cat in KEEP:
                out.append(sec)
        _HEAD = "\n#".join(out) + "\n#\n"
    return _HEAD


def q(v):
    v = str(v)
    if v == "":
        return "."
    if "'" in v or '"' in v or " " in v:
        return '"' + v + '"' if '"' not in v else "'" + v + "'"
    return v


ITEMS = ["group_PDB", "id", "type_symbol", "label_atom_id", "label_alt_id",
         "label_comp_id", "label_asym_id", "label_entity_id", "label_seq_id",
         "pdbx_PDB_ins_code", "Cartn_x", "Cartn_y", "Cartn_z", "occupancy",
         "B_iso_or_equiv", "pdbx_formal_charge", "auth_seq_id",
         "auth_comp_id", "auth_asym_id", "auth_atom_id",
         "pdbx_PDB_model_num"]


OPTIONAL_ITEMS = ("pdbx_PDB_ins_code", "pdbx_formal_charge")
EXTRA_ITEMS = ("Cartn_x_esd", "Cartn_y_esd", "Cartn_z_esd", "occupancy_esd")


def cif_text(models, layout=0):
    """models: list of lists of atom dicts (with alt, charge fields).
    layout: the order (and set) of the items of a loop carries no meaning in
    mmCIF - the atom_site items are rotated by `layout` positions, odd
    layouts carry the *_esd items of older files, and an optional item none
    of whose values is set is left out when layout % 3 == 2."""
    rows_all = [a for m in models for a in m]
    items = list(ITEMS)
    if layout % 2:
        k = items.index("Cartn_z") + 1
        items[k:k] = list(EXTRA_ITEMS)
    if layout % 3 == 2:
        if not any(a["icode"] for a in rows_all):
            items.remove("pdbx_PDB_ins_code")
        if not any(a.get("charge") for a in rows_all):
            items.remove("pdbx_formal_charge")
    r = layout % len(items)
    order = items[r:] + items[:r]
    # header variant: wwPDB header for most files, none / unknown-value
    # markers for layouts 3 and 7 (mod 8)
    hv = {3: 1, 7: 2}.get(layout % 8, 0)
    lines = [cif_header(hv), "loop_"]
    lines += [f"_atom_site.{i}" for i in order]
    serial = 1
    # the rows of one model need not be contiguous in the loop: multi-model
    # entries are written interleaved (first row of every model, second row
    # of every model, ...), which keeps the order of the rows of each model
    per_model = []
    for mi, atoms in enumerate(models, start=MODEL0 if len(models) > 1 else 1):
        per_model.append([(0, mi, a) for a in atoms])
    rows = []
    for k in range(max(len(m) for m in per_model)):
        for m in per_model:
            if k < len(m):
                rows.append(m[k])
    for _grp, mi, a in rows:
        if True:
            x, y, z = a["xyz"]
            elem = next((c for c in a["name"] if c.isalpha()), "X")
            row = [a["record"], serial, elem, q(a["name"]),
                   a.get("alt") or ".", a["res_name"], a["chain"] or ".",
                   "1", a["res_seq"] if a["res_seq"] > 0 else ".",
                   a["icode"] or "?", f"{x:.3f}", f"{y:.3f}", f"{z:.3f}",
                   "1.00", "0.00", a.get("charge") or "?", a["res_seq"],
                   a["res_name"], a["chain"] or ".", q(a["name"]), mi]
            byname = dict(zip(ITEMS, row))
            byname.update({e: "?" for e in EXTRA_ITEMS})
            lines.append(" ".join(str(byname[i]) for i in order))
            serial += 1
    lines.append("#")
    return "\n".join(lines) + "\n"


def pdb_text(models):
    lines = ["HEADER    VERIF BUILT STRUCTURE                   01-JAN-00   XXXX"]
    multi = len(models) > 1
    for mi, atoms in enumerate(models, start=MODEL0 if multi else 1):
        if multi:
            lines.append(f"MODEL     {mi:>4}")
        serial = 1
        prev = None
        for a in atoms:
            if prev is not None and prev["record"] == "ATOM" and (
                    a["record"] != "ATOM" or a["chain"] != prev["chain"]):
                lines.append(ter_line(serial, prev["res_name"], prev["chain"],
                                      prev["res_seq"], prev["icode"]))
                serial += 1
            x, y, z = a["xyz"]
            l = atom_line(serial, a["name"], a["res_name"], a["chain"],
                          a["res_seq"], x, y, z, record=a["record"],
                          alt=a.get("alt", ""), icode=a["icode"])
            if a.get("charge"):
                c = int(a["charge"])
                l = l[:78] + f"{abs(c)}{'+' if c > 0 else '-'}"
            lines.append(l)
            serial += 1
            prev = a
        if multi:
            lines.append("ENDMDL")
    lines.append("END")
    return "\n".join(lines) + "\n"


def make_models(structure, feats):
    """-> list of models (list of BAtom) with the requested features."""
    h = "name4" in feats
    if structure == "tri":
        atoms = build.build_peptide(["ALA", "ARG", "SER"], hydrogens=h)
    elif structure == "two":
        a = build.build_peptide(["GLY", "LYS", "ALA"], chain="A", hydrogens=h)
        # chain ids differing by case only (entries with > 26 chains)
        b = build.build_peptide(["THR", "ARG", "GLY"], chain="a", start=11,
                                origin=(0.0, 0.0, 20.0), hydrogens=h)
        atoms = a + b
        # coordinates that fill their eight PDB columns
        for at in atoms:
            at["xyz"] = at["xyz"] + np.array([-150.0, 120.0, -250.0])
    elif structure == "hpep":
        atoms = build.build_peptide(["ARG", "ASN", "TRP", "ARG"], hydrogens=h)
    elif structure == "strand":
        atoms = build.build_strand(["DA", "DT", "DG"], hydrogens=h)
    else:
        raise ValueError(structure)
    if not h:
        # without the feature no atom name has four characters
        atoms = [a for a in atoms if len(a["name"]) < 4]
    if "negative" in feats:
        for a in atoms:
            a["res_seq"] -= 20
    if "icode" in feats:
        # residues 2 and 3 of each chain get the number of residue 1 + codes
        first = {}
        for a in atoms:
            first.setdefault(a["chain"], a["res_seq"])
        for a in atoms:
            off = a["res_seq"] - first[a["chain"]]
            if 0 < off <= 2:
                a["res_seq"] = first[a["chain"]]
                a["icode"] = "AB"[off - 1]
    if "waters" in feats:
        n = max(a["res_seq"] for a in atoms) + 50
        # one hetero record listed before the polymer, one after it (the
        # order of the records is part of the structure: residue order)
        atoms.insert(0, build.water((9.0, 9.0, 9.0), n, chain="A"))
        atoms.append(build.water((9.0, 13.0, 9.0), n + 1, chain="A"))
    if "charge" in feats:
        for a in atoms:
            if a["name"] == "NZ":
                a["charge"] = "1"
            elif a["name"] in ("OG", "OG1", "O3'"):
                a["charge"] = "-1"
            elif a["name"] == "CA" and a["res_name"] == "ALA":
                a["charge"] = "1"
    if "altloc" in feats:
        out = []
        for a in atoms:
            if a["name"] in ("CB", "C5'") and a["record"] == "ATOM":
                a1 = build.BAtom(a)
                a1["alt"] = "A"
                a2 = build.BAtom(a)
                a2["alt"] = "B"
                a2["xyz"] = a["xyz"] + np.array([0.111, 0.0, 0.0])
                out += [a1, a2]
            else:
                out.append(a)
        atoms = out
    models = [atoms]
    if "models" in feats:
        m2 = []
        for a in atoms:
            b = build.BAtom(a)
            b["xyz"] = a["xyz"] + np.array([0.25, 0.0, 0.0])
            m2.append(b)
        models.append(m2)
    return models


def fingerprint(r, clean):
    if clean:
        return sorted((a.name, a.res_name, a.res_seq, a.ins_code,
                       round(a.x, 3), round(a.y, 3), round(a.z, 3))
                      for a in r.bm.atoms)
    missed = {id(a) for a in (r.missed or [])}
    return sorted((a.name, a.res_name, a.res_seq, a.ins_code, round(a.x, 3),
                   round(a.y, 3), round(a.z, 3), a.ffcharge, a.radius)
                  for a in r.bm.atoms if id(a) not in missed)


def compare(structure, feats, ff, opts):
    models = make_models(structure, feats)
    clean = "--clean" in opts
    o = [f"--ff={ff}"] + list(opts)
    rp = pipeline.run(pdb_text(models), o, input_name="in.pdb")
    # every feature subset comes in a loop layout of its own
    layout = sum(1 << FEATURES.index(f) for f in feats) + len(structure)
    rc = pipeline.run(cif_text(models, layout), o, input_name="in.cif")
    if not rp.ok:
        return ("pdb-run-fails", {"exc": rp.exc})
    if not rc.ok:
        return ("cif-run-fails:" + rc.exc[0],
                {"exc": str(rc.exc_obj.__cause__ or rc.exc_obj)[:160]})
    fp, fc = fingerprint(rp, clean), fingerprint(rc, clean)
    if fp == fc:
        # same model: the written atom records must be the same too
        lp = [l for l in (rp.pqr_text or "").splitlines()
              if l.startswith(("ATOM", "HETATM"))]
        lc = [l for l in (rc.pqr_text or "").splitlines()
              if l.startswith(("ATOM", "HETATM"))]
        if lp != lc:
            d = next(((a, b) for a, b in zip(lp, lc) if a != b),
                     (f"{len(lp)} records", f"{len(lc)} records"))
            return ("written-records-differ", {"pdb": d[0], "cif": d[1]})
        return None
    if len(fp) != len(fc):
        return ("atom-count-differs", {"pdb": len(fp), "cif": len(fc)})
    d = next((a, b) for a, b in zip(fp, fc) if a != b)
    return ("atoms-differ", {"pdb": d[0], "cif": d[1]})


def run_case(case):
    res = {"evals": 0, "violations": [], "events": {}, "nontrivial": []}
    structure, ff, opts = case["structure"], case["ff"], case["opts"]
    seen = set()
    subsets = case.get("subsets")
    if subsets is None:
        subsets = [list(s) for n in range(len(FEATURES) + 1)
                   for s in itertools.combinations(FEATURES, n)]
    for feats in subsets:
        out = compare(structure, feats, ff, opts)
        res["evals"] += 2
        res["nontrivial"].append(f"{structure}:{'+'.join(feats)}:{ff}:"
                                 f"{'+'.join(opts)}")
        if out is None:
            k = "equal"
            res["events"][k] = res["events"].get(k, 0) + 1
            continue
        if out[0] == "pdb-run-fails":
            res["events"]["pdb-run-fails"] = res["events"].get("pdb-run-fails", 0) + 1
            continue
        # minimise the feature set
        cur = list(feats)
        changed = True
        while changed:
            changed = False
            for f in list(cur):
                sub = [g for g in cur if g != f]
                o2 = compare(structure, sub, ff, opts)
                res["evals"] += 2
                if o2 is not None and o2[0] == out[0]:
                    cur = sub
                    changed = True
                    break
        sig = (f"C10/{out[0]}/features={'+'.join(cur) or 'none'}"
               f"/{'clean' if '--clean' in opts else 'full'}")
        if sig not in seen:
            seen.add(sig)
            res["violations"].append({
                "sig": sig, "detail": dict(out[1], structure=structure, ff=ff,
                                           first_failing_subset=feats),
                "case": {"structure": structure, "ff": ff, "opts": opts,
                         "subsets": [cur]}})
    return res


def enumerate_cases(tier, seed):
    structures = ["tri", "two", "hpep"]
    if tier == "thorough":
        structures.append("strand")
    cases = []
    ffs = ("AMBER", "PARSE") if tier == "quick" else tuple(corpus.FFS)
    optsets = ([], ["--clean"]) if tier == "quick" else (
        [], ["--clean"], ["--noopt", "--nodebump"], ["--whitespace",
                                                     "--keep-chain"])
    for s in structures:
        for ff in ffs:
            if s == "strand" and ff not in corpus.NUCLEIC_FFS:
                continue
            for opts in optsets:
                # split the 128 subsets into 4 cases for load balancing
                subs = [list(x) for n in range(len(FEATURES) + 1)
                        for x in itertools.combinations(FEATURES, n)]
                for k in range(4):
                    cases.append({"structure": s, "ff": ff, "opts": opts,
                                  "subsets": subs[k::4]})
    return cases
