"""C07 - every coordinate record of the first model of a PDB input is ingested.

Stateless exhaustive exploration of the real reader (pdb.read_pdb ->
main.drop_water -> Biomolecule, and main_driver --clean end to end) over all
"edit programs" of bounded length applied to small base files, against an
independent column-slicing reference reader (mc.refs.pdb_ref).
"""

import hashlib
import io

from .. import engine
from ..pdbfmt import atom_line, ter_line
from ..refs import pdb_ref

PROPERTY = "C07"
LEVEL = "model_checking"
RULE = (
    "case = (base file, model layout, file-level flags, edit program); an "
    "edit program is a multiset of <=2 (thorough <=3) positional edits "
    "(insert one of the bookkeeping/blank/unknown lines at any gap, modify "
    "one coordinate line's ending/length/record type, give one coordinate "
    "record a second alternate location, renumber one residue); all programs "
    "are enumerated; non-trivial = distinct generated file text (x driver x "
    "drop-water) whose edit program is non-empty"
)
ASSUMPTIONS = [
    "lower-case record names, free-format (non-column) ATOM lines and "
    "coordinate records whose x/y/z columns are cut off are outside the "
    "PDB format and not generated",
    "MODEL/ENDMDL records are only placed where the model structure is "
    "unambiguous (MODEL n before a model's first atom, ENDMDL after its "
    "last); extra coordinate records are only inserted next to coordinate "
    "records of a model and never inside another residue (records of one "
    "residue are contiguous)",
    "chain identifiers the program documents it re-letters (blank ids; a "
    "chain id re-used after a hidden chain end marked by OXT) are compared "
    "modulo that re-lettering",
]
BOUND = {
    "quick": "all programs of <=2 edits on base A (single-model and "
    "two-model layouts) and one seed-chosen further variant; all programs of "
    "<=1 edit on every base x layout x flag variant (direct driver) and on "
    "three variants end to end through main_driver --clean, each with and "
    "without --drop-water; five bases (E: atoms with template aliases); the "
    "alias edits of bases E and D and the partial-disorder edits of base C "
    "(ligand of four atoms) paired with every other edit; 8 model-numbering "
    "/ spelling layouts (not from 1, descending, repeated, unpadded, frames "
    "without ENDMDL) x 3 bases through both drivers",
    "thorough": "all programs of <=2 edits on every base x layout x flag "
    "variant; all programs of <=3 insert-edits on base A; all <=1-edit "
    "programs end to end on every variant",
}

# ---------------------------------------------------------------------------
# base files
# ---------------------------------------------------------------------------
_GLY = [("N", -0.5, 1.2, 0.1), ("CA", 0.9, 1.3, 0.2), ("C", 1.5, 2.7, 0.3),
        ("O", 0.8, 3.7, 0.4)]
_ALA = [("N", 2.8, 2.8, 0.3), ("CA", 3.5, 4.1, 0.4), ("C", 5.0, 3.9, 0.5),
        ("O", 5.6, 2.8, 0.6), ("CB", 3.2, 4.9, -0.9), ("OXT", 5.6, 5.0, 0.7)]
_SER = [("N", 12.8, 2.8, 0.3), ("CA", 13.5, 4.1, 0.4), ("C", 15.0, 3.9, 0.5),
        ("O", 15.6, 2.8, 0.6), ("CB", 13.2, 4.9, -0.9),
        ("OG", 12.1, 5.9, -0.8), ("OXT", 15.6, 5.0, 0.7)]


_ILE = [("N", -0.5, 1.2, 0.1), ("CA", 0.9, 1.3, 0.2), ("C", 1.5, 2.7, 0.3),
        ("O", 0.8, 3.7, 0.4), ("CB", 1.6, 0.4, -0.9), ("CG1", 1.2, -1.1, -0.8),
        ("CG2", 3.1, 0.6, -1.0), ("CD1", 1.9, -2.0, -1.8)]
_ALAH = [("N", 2.8, 2.8, 0.3), ("H", 3.3, 2.0, 0.2), ("CA", 3.5, 4.1, 0.4),
         ("C", 5.0, 3.9, 0.5), ("O", 5.6, 2.8, 0.6), ("CB", 3.2, 4.9, -0.9),
         ("OXT", 5.6, 5.0, 0.7)]
# alternative names defined by the residue templates themselves (the
# program renames them on reading): (residue name, canonical) -> alias
ALIASES = {("ILE", "CD1"): "CD", ("ALA", "H"): "HN", ("HOH", "O"): "OW",
           ("WAT", "O"): "OH2", ("A", "O5'"): "O5*", ("U", "C4'"): "C4*"}
CANONICAL = {(res, alias): canon for (res, canon), alias in ALIASES.items()}


def _records(base):
    out = []
    if base == "E":  # names with template aliases: ILE CD1, amide H, water O
        for n, x, y, z in _ILE:
            out.append(("ATOM", n, "ILE", "A", 1, x, y, z, 0))
        for n, x, y, z in _ALAH:
            out.append(("ATOM", n, "ALA", "A", 2, x, y, z, 1))
        out.append(("TER",))
        out.append(("HETATM", "O", "HOH", "A", 3, 8.0, 8.0, 8.0, 2))
        out.append(("HETATM", "O", "WAT", "A", 4, 12.0, 8.0, 8.0, 3))
        return out
    if base == "A":  # dipeptide + water, one chain
        for n, x, y, z in _GLY:
            out.append(("ATOM", n, "GLY", "A", 1, x, y, z, 0))
        for n, x, y, z in _ALA:
            out.append(("ATOM", n, "ALA", "A", 2, x, y, z, 1))
        out.append(("TER",))
        out.append(("HETATM", "O", "HOH", "A", 3, 8.0, 8.0, 8.0, 2))
    elif base == "B":  # two chains + two waters
        for n, x, y, z in _ALA:
            out.append(("ATOM", n, "ALA", "A", 1, x, y, z, 0))
        out.append(("TER",))
        for n, x, y, z in _SER:
            out.append(("ATOM", n, "SER", "B", 1, x, y, z, 1))
        out.append(("TER",))
        out.append(("HETATM", "O", "HOH", "A", 2, 8.0, 8.0, 8.0, 2))
        out.append(("HETATM", "O", "HOH", "B", 2, 18.0, 8.0, 8.0, 3))
    elif base == "D":  # RNA with one-letter residue names + waters
        for n, x, y, z in (("P", 0.0, 0.0, 0.0), ("O5'", 1.5, 0.2, 0.1),
                           ("C5'", 2.5, 1.2, 0.3), ("C4'", 3.9, 0.8, 0.4)):
            out.append(("ATOM", n, "A", "R", 1, x, y, z, 0))
        for n, x, y, z in (("P", 7.0, 2.0, 1.0), ("O5'", 8.5, 2.2, 1.1),
                           ("C5'", 9.5, 3.2, 1.3), ("C4'", 10.9, 2.8, 1.4)):
            out.append(("ATOM", n, "U", "R", 2, x, y, z, 1))
        out.append(("TER",))
        out.append(("HETATM", "O", "HOH", "R", 3, 8.0, 8.0, 8.0, 2))
        out.append(("ATOM", "O", "WAT", "R", 4, 12.0, 8.0, 8.0, 3))
    elif base == "C":  # hetero group between chain and waters, no TER
        for n, x, y, z in _GLY:
            out.append(("ATOM", n, "GLY", "A", 1, x, y, z, 0))
        for n, x, y, z in _SER:
            out.append(("ATOM", n, "SER", "A", 2, x - 10, y, z, 1))
        out.append(("HETATM", "ZN", "ZN", "A", 3, 20.0, 0.0, 0.0, 2))
        out.append(("HETATM", "O", "HOH", "A", 4, 8.0, 8.0, 8.0, 3))
        out.append(("HETATM", "O", "WAT", "A", 5, 9.0, 18.0, 8.0, 4))
        # a ligand of several atoms (partial disorder is edited onto it)
        for n, x, y, z in (("C1", 30.0, 0.0, 0.0), ("O1", 31.4, 0.2, 0.1),
                           ("C2", 29.2, 1.3, 0.2), ("O2", 29.9, 2.5, 0.3)):
            out.append(("HETATM", n, "GOL", "A", 6, x, y, z, 5))
    return out


def base_lines(base, flags, shift=0.0, serial0=1):
    lines = []
    serial = serial0
    last = None
    for r in _records(base):
        if r[0] == "TER":
            lines.append(ter_line(
                serial, last[2], "" if "blankchain" in flags else last[3],
                last[4]))
            serial += 1
            continue
        rec, name, resn, ch, seq, x, y, z, ri = r
        if "blankchain" in flags:
            ch = ""
            if base == "B" and ri == 3:
                seq += 1  # waters of unnamed chains carry distinct numbers
        if "samechain" in flags:
            ch = "A"
            if base == "B" and ri in (1, 3):
                seq += 10
        lines.append(atom_line(
            serial, name, resn, ch, seq, x + shift, y, z, record=rec,
            element=("ZN" if name == "ZN" else None)))
        serial += 1
        last = r
    return lines


HEADER = ["HEADER    TEST MOLECULE                           01-JAN-00   XXXX"]
MODEL_LAYOUTS = ("none", "m1", "m1m2", "nom1m2", "m1m2m3")
# model serial numbers need not start at 1 or ascend (ensemble subsets), and
# writers differ in how they pad the record: "first model" means first in
# the file.  Used with the pristine bases only.
NUMBERED_LAYOUTS = {"m3m4": (3, 4), "m2m1": (2, 1), "m0m1m2": (0, 1, 2),
                    "m1m1": (1, 1), "m1m2:unpadded": (1, 2),
                    "m5:unpadded": (5,),
                    # frames separated by MODEL records only
                    "m1m2:noendmdl": (1, 2), "nom1m2:noendmdl": (None, 2)}


def build_lines(base, layout, flags):
    first = base_lines(base, flags)
    lines = list(HEADER)
    if layout == "none":
        lines += first + ["END"]
    elif layout == "m1":
        lines += ["MODEL        1"] + first + ["ENDMDL", "END"]
    elif layout == "m1m2":
        lines += ["MODEL        1"] + first + ["ENDMDL", "MODEL        2"]
        lines += base_lines(base, flags, shift=0.25) + ["ENDMDL", "END"]
    elif layout == "nom1m2":
        lines += first + ["ENDMDL", "MODEL        2"]
        lines += base_lines(base, flags, shift=0.25) + ["ENDMDL", "END"]
    elif layout in NUMBERED_LAYOUTS:
        for k, num in enumerate(NUMBERED_LAYOUTS[layout]):
            if num is not None:
                lines += [f"MODEL {num}" if layout.endswith(":unpadded")
                          else f"MODEL     {num:>4}"]
            lines += base_lines(base, flags, shift=0.25 * k)
            if not layout.endswith(":noendmdl"):
                lines += ["ENDMDL"]
        lines += ["END"]
    elif layout == "m1m2m3":
        lines += ["MODEL        1"] + first + ["ENDMDL", "MODEL        2"]
        lines += base_lines(base, flags, shift=0.25) + ["ENDMDL"]
        lines += ["MODEL        3"] + base_lines(base, flags, shift=0.5)
        lines += ["ENDMDL", "END"]
    return lines


# ---------------------------------------------------------------------------
# edit alphabet
# ---------------------------------------------------------------------------
INSERTS = {
    "empty": "",
    "blanks": "        ",
    "tab": "\t",
    "unknown": "FOOBAR    a record type that does not exist",
    "remark0": "REMARK",
    "remark": "REMARK 999 FREE TEXT 1.0 2.0 3.0 4.0 5.0",
    "ter_bare": "TER",
    "ter_full": "TER      99      ALA A   2",
    "end": "END",
    "conect": "CONECT    1    2",
    "anisou": "ANISOU    1  N   GLY A   1     2406   1892   1614    198    "
              "519   -328       N",
    "master": "MASTER        0    0    0    0    0    0    0    0   11    0"
              "    0    1",
    "sigatm": "SIGATM    1  N   GLY A   1       0.012   0.013   0.014  0.00"
              "  0.00           N",
    "hetnew": "HETATM  900 CL    CL A 900      30.000  31.000  32.000  1.00"
              "  0.00          CL",
}
LINE_MODS = ("alias", "crlf", "trail", "cut54", "cut60", "cut66", "cut78",
             "alt_after", "alt_end", "alt_cd", "alt_only_b", "hetflip",
             "serial5", "wide")
RES_MODS = ("neg", "big", "icode", "icode_split", "icode_collide")


def is_coord(line):
    return line[0:6].strip() in ("ATOM", "HETATM")


def _near_coord(lines, gap):
    """A new hetero residue may be inserted next to coordinate records of a
    model, but not inside another residue (the records of one residue are
    contiguous in a PDB file)."""
    def ok(l):
        return l[0:6].strip() in ("ATOM", "HETATM", "TER")
    before = lines[gap - 1] if gap - 1 >= 0 else ""
    after = lines[gap] if gap < len(lines) else ""
    if not (ok(before) or ok(after)):
        return False
    if is_coord(before) and is_coord(after):
        return (before[21], before[22:27]) != (after[21], after[22:27])
    return True


def single_edits(lines):
    """All single positional edits for this file, simplest first."""
    edits = []
    n = len(lines)
    for kind in INSERTS:
        for gap in range(n + 1):
            if kind == "hetnew" and not _near_coord(lines, gap):
                continue
            edits.append(("ins", kind, gap))
    for kind in LINE_MODS:
        for i, l in enumerate(lines):
            if is_coord(l):
                if kind == "alias" and (l[17:20].strip(),
                                        l[12:16].strip()) not in ALIASES:
                    continue
                edits.append(("mod", kind, i))
    for kind in RES_MODS:
        for ri in range(len(_residue_keys(lines))):
            edits.append(("res", kind, ri))
    return edits


def _residue_keys(lines):
    seen = []
    for l in lines:
        if is_coord(l):
            key = (l[21], l[22:26])
            if key not in seen:
                seen.append(key)
    return seen


def regions(lines):
    """(first coordinate index, last coordinate index of the first model)."""
    first = next(i for i, l in enumerate(lines) if is_coord(l))
    last = first
    for i in range(first, len(lines)):
        rec = lines[i][0:6].strip()
        if rec in ("ENDMDL",) or (rec == "MODEL" and i > first):
            break
        if is_coord(lines[i]):
            last = i
    return first, last


def edit_class(lines, edit):
    """Equivalence class of an edit used in signatures: what + region."""
    k, what, pos = edit
    first, last = regions(lines)
    if k == "ins":
        reg = "pre" if pos <= first else ("m1" if pos <= last else "post")
    elif k == "mod":
        reg = "m1" if pos <= last else "post"
    else:
        reg = "m1"
    return f"{k}:{what}@{reg}"


def apply_program(lines, program):
    """Apply edits; modifications use base indices, insertions base gaps."""
    lines = list(lines)
    endings = ["\n"] * len(lines)
    after = {}
    at_res_end = {}
    reskeys = _residue_keys(lines)
    for kind, what, pos in program:
        if kind != "res":
            continue
        key = reskeys[pos]
        idxs = [i for i, l in enumerate(lines)
                if is_coord(l) and (l[21], l[22:26]) == key]
        for k, i in enumerate(idxs):
            l = lines[i]
            if what == "neg":
                l = l[:22] + f"{-(5 + pos):>4}" + l[26:]
            elif what == "big":
                l = l[:22] + f"{9000 + pos:>4}" + l[26:]
            elif what == "icode":
                l = l[:26] + "A" + l[27:]
            elif what == "icode_collide":
                # this residue takes the NUMBER of the residue listed before
                # it and is told apart by its insertion code only (5, 5A)
                if pos > 0 and reskeys[pos - 1][0] == key[0]:
                    l = l[:22] + reskeys[pos - 1][1] + "A" + l[27:]
            elif what == "icode_split":
                if k >= (len(idxs) + 1) // 2:
                    l = l[:26] + "B" + l[27:]
            lines[i] = l
    for kind, what, pos in program:
        if kind != "mod":
            continue
        l = lines[pos]
        if what == "alias":
            alias = ALIASES.get((l[17:20].strip(), l[12:16].strip()))
            if alias is not None:  # (applying the edit twice changes nothing)
                field = (" " + alias).ljust(4) if len(alias) < 4 else alias
                lines[pos] = l[:12] + field + l[16:]
        elif what == "crlf":
            endings[pos] = "\r\n"
        elif what == "trail":
            lines[pos] = l + " " * 12
        elif what.startswith("cut"):
            lines[pos] = l[: int(what[3:])]
        elif what == "alt_only_b":
            # an atom that exists in the second conformer only
            lines[pos] = l[:16] + "B" + l[17:]
        elif what in ("alt_after", "alt_end", "alt_cd"):
            la, lb = ("C", "D") if what == "alt_cd" else ("A", "B")
            first = l[:16] + la + l[17:]
            x = float(l[30:38]) + 0.111
            second = l[:16] + lb + l[17:30] + f"{x:8.3f}" + l[38:]
            lines[pos] = first
            if what in ("alt_after", "alt_cd"):
                after.setdefault(pos, []).append(second)
            else:
                key = (l[21], l[22:27])
                j = pos
                while (j + 1 < len(lines) and is_coord(lines[j + 1])
                       and (lines[j + 1][21], lines[j + 1][22:27]) == key):
                    j += 1
                at_res_end.setdefault(j, []).append(second)
        elif what == "wide":
            # coordinates that fill their eight columns (sign or leading
            # digit in the first column of the field, fields touching)
            lines[pos] = (l[:30] + f"{-123.456 - pos:8.3f}"
                          + f"{1234.567 + pos:8.3f}" + f"{-999.999:8.3f}"
                          + l[54:])
        elif what == "serial5":
            # five-digit serial: the serial abuts the record name (HETATM10007)
            lines[pos] = l[:6] + f"{10000 + pos:>5}" + l[11:]
        elif what == "hetflip":
            if l.startswith("ATOM  "):
                lines[pos] = "HETATM" + l[6:]
            else:
                lines[pos] = "ATOM  " + l[6:]
    gaps = {}
    for kind, what, pos in program:
        if kind == "ins":
            text = INSERTS[what]
            if what == "hetnew":  # a distinct residue per insertion point
                text = text[:22] + f"{900 + pos:>4}" + text[26:]
            gaps.setdefault(pos, []).append(text)
    out = []
    for i in range(len(lines) + 1):
        for extra in gaps.get(i, ()):
            out.append(extra + "\n")
        if i < len(lines):
            out.append(lines[i] + endings[i])
            for extra in after.get(i, ()):
                out.append(extra + "\n")
            for extra in at_res_end.get(i, ()):
                out.append(extra + "\n")
    return "".join(out)


# ---------------------------------------------------------------------------
# drivers and oracle
# ---------------------------------------------------------------------------
_DEF = None


def worker_init():
    global _DEF
    from pdb2pqr import io as pio

    _DEF = pio.get_definitions()


def _ref_set(text, drop_water):
    atoms, bad = pdb_ref.first_model_atoms(text)
    exp = {}
    for a in atoms:
        if drop_water and a["res_name"] in pdb_ref.WATER_NAMES:
            continue
        name = CANONICAL.get((a["res_name"], a["name"]), a["name"])
        key = (a["chain"], a["res_seq"], a["icode"], name,
               round(a["x"], 3), round(a["y"], 3), round(a["z"], 3))
        exp[key] = exp.get(key, 0) + 1
    return exp, bad


NUCLEIC_NAMES = {"A", "C", "G", "U", "T", "DA", "DC", "DG", "DT", "RA", "RC",
                 "RG", "RU", "ADE", "CYT", "GUA", "URA", "THY"}
PHOSPHATE = {"P", "O1P", "O2P", "OP1", "OP2"}


def _five_prime_phosphates(text):
    """(chain, res_seq, icode, name) of the phosphate atoms of a nucleotide
    that opens a chain (first residue of a chain id; for chains without an
    identifier, first residue after a TER record): the termini do not model a
    5'-terminal phosphate and the program removes it by design (stated in
    C03), so under the end-to-end driver these atoms may be present or
    absent."""
    atoms, _bad = pdb_ref.first_model_atoms(text)
    first = {}
    for a in atoms:
        first.setdefault((a["chain"], a["segment"]),
                         (a["res_seq"], a["icode"], a["res_name"]))
    out = set()
    for a in atoms:
        f = first[(a["chain"], a["segment"])]
        if (a["res_seq"], a["icode"], a["res_name"]) == f and \
                a["res_name"] in NUCLEIC_NAMES and a["name"] in PHOSPHATE:
            out.add((a["chain"], a["res_seq"], a["icode"], a["name"]))
    return out


def _model_set(atoms):
    got = {}
    for a in atoms:
        key = (a.chain_id, a.res_seq, a.ins_code, a.name,
               round(a.x, 3), round(a.y, 3), round(a.z, 3))
        got[key] = got.get(key, 0) + 1
    return got


def _compare(exp, got, blank_relabel):
    if blank_relabel:
        def strip(d):
            o = {}
            for k, v in d.items():
                kk = (None,) + k[1:]
                o[kk] = o.get(kk, 0) + v
            return o
        exp, got = strip(exp), strip(got)
    missing = {k: v for k, v in exp.items() if got.get(k, 0) < v}
    extra = {k: v for k, v in got.items() if exp.get(k, 0) < v}
    return missing, extra


def read_direct(text, drop_water):
    from pdb2pqr import biomolecule, main, pdb

    pdblist, _errlist = pdb.read_pdb(io.StringIO(text, newline=""))
    if drop_water:
        pdblist = main.drop_water(pdblist)
    bm = biomolecule.Biomolecule(pdblist, _DEF)
    return bm.atoms


def read_clean(text, drop_water):
    from pdb2pqr import main

    d = engine.scratch_dir()
    inp = d / "c07_in.pdb"
    out = d / "c07_out.pqr"
    with open(inp, "w", newline="") as f:
        f.write(text)
    if out.exists():
        out.unlink()
    argv = ["--clean", "--keep-chain", str(inp), str(out)]
    if drop_water:
        argv.insert(0, "--drop-water")
    _missed, _pka, bm = main.run_pdb2pqr(argv)
    n_lines = sum(1 for l in open(out) if l.startswith(("ATOM", "HETATM")))
    return bm.atoms, n_lines


def outcome(text, driver, drop_water, blank_relabel):
    """None if the property holds for this file, else (kind, detail)."""
    exp, _bad = _ref_set(text, drop_water)
    try:
        if driver == "direct":
            atoms = read_direct(text, drop_water)
            n_lines = None
        else:
            atoms, n_lines = read_clean(text, drop_water)
    except Exception as exc:  # loud failure on a file of valid records
        if not exp and driver == "clean":
            return None  # nothing to ingest (all waters dropped): may refuse
        return ("exception:" + type(exc).__name__, str(exc)[:200])
    got = _model_set(atoms)
    opt_present = 0
    if driver == "clean":
        optional = _five_prime_phosphates(text)
        if optional:
            # chains without identifier are re-lettered by the program
            anychain = {k[1:] for k in optional if k[0] == ""}
            exp = {k: v for k, v in exp.items() if k[:4] not in optional}
            kept = {k: v for k, v in got.items()
                    if k[:4] not in optional and k[1:4] not in anychain}
            opt_present = sum(got.values()) - sum(kept.values())
            got = kept
    missing, extra = _compare(exp, got, blank_relabel)
    nexp, ngot = sum(exp.values()), sum(got.values())
    if missing and extra:
        return ("wrong-atoms", {"missing": sorted(map(str, missing))[:4],
                                "extra": sorted(map(str, extra))[:4],
                                "n_expected": nexp, "n_got": ngot})
    if missing:
        return ("lost-atoms", {"missing": sorted(map(str, missing))[:6],
                               "n_expected": nexp, "n_got": ngot})
    if extra:
        return ("extra-atoms", {"extra": sorted(map(str, extra))[:6],
                                "n_expected": nexp, "n_got": ngot})
    if n_lines is not None and n_lines != nexp + opt_present:
        return ("pqr-line-count", {"lines": n_lines,
                                   "n_expected": nexp + opt_present})
    return None


def _text(variant, lines, program):
    text = apply_program(lines, program)
    if "crlfall" in variant[2]:
        text = text.replace("\r\n", "\n").replace("\n", "\r\n")
    return text


def minimise(variant, lines, program, driver, drop_water, kind):
    """Delta-debug the edit program: drop edits while the same failure kind
    persists (the reported counter-example is the shortest)."""
    blank = bool({"blankchain", "samechain"} & set(variant[2]))
    program = list(program)
    changed = True
    while changed and program:
        changed = False
        for i in range(len(program)):
            sub = program[:i] + program[i + 1:]
            o = outcome(_text(variant, lines, sub), driver, drop_water, blank)
            if o is not None and o[0] == kind:
                program = sub
                changed = True
                break
    return program


def check_program(variant, lines, program, driver, drop_water):
    base, layout, flags = variant
    blank = bool({"blankchain", "samechain"} & set(flags))
    o = outcome(_text(variant, lines, program), driver, drop_water, blank)
    if o is None:
        return None
    kind, detail = o
    mini = minimise(variant, lines, program, driver, drop_water, kind)
    classes = sorted({edit_class(lines, e) for e in mini})
    dw = drop_water
    if drop_water:
        o2 = outcome(_text(variant, lines, mini), driver, False, blank)
        if o2 is not None and o2[0] == kind:
            dw = False
    ctxt = []
    if not mini:
        ctxt = [f"pristine:base={base}", f"layout={layout}"] + sorted(flags)
    sig = "C07/%s%s/%s/%s" % (
        driver, "+dropwater" if dw else "", kind, "+".join(classes + ctxt))
    return {
        "sig": sig,
        "detail": {"outcome": detail, "minimal_program": mini,
                   "variant": variant,
                   "file_text": _text(variant, lines, mini)},
        "case": {"mode": "one", "variant": [base, layout, list(flags)],
                 "program": [list(e) for e in mini], "driver": driver,
                 "drop_water": drop_water},
    }


def run_case(case):
    v = case["variant"]
    variant = (v[0], v[1], tuple(v[2]))
    lines = build_lines(*variant)
    res = {"violations": [], "evals": 0, "nontrivial": [], "events": {}}
    seen_sigs = {}

    def one(program, driver, drop_water):
        viol = check_program(variant, lines, program, driver, drop_water)
        res["evals"] += 1
        if program:
            res["nontrivial"].append(
                hashlib.md5(_text(variant, lines, program).encode())
                .hexdigest()[:12] + driver[0] + str(int(drop_water)))
        key = f"{driver}:{'violation' if viol else 'ok'}"
        res["events"][key] = res["events"].get(key, 0) + 1
        for e in program:
            k2 = "edit-exercised:" + edit_class(lines, e)
            res["events"][k2] = res["events"].get(k2, 0) + 1
        if viol:
            if viol["sig"] in seen_sigs:
                seen_sigs[viol["sig"]]["detail"]["repeats_in_case"] += 1
            else:
                viol["detail"]["repeats_in_case"] = 0
                seen_sigs[viol["sig"]] = viol
                res["violations"].append(viol)

    mode = case["mode"]
    if mode == "one":
        one([tuple(e) for e in case["program"]], case["driver"],
            case["drop_water"])
        return res
    edits = single_edits(lines)
    if mode == "pristine":
        for driver in ("direct", "clean"):
            for dw in (False, True):
                one([], driver, dw)
    elif mode == "singles_direct":
        for prog in [[]] + [[e] for e in edits]:
            for dw in (False, True):
                one(prog, "direct", dw)
    elif mode == "singles_clean":
        progs = [[]] + [[e] for e in edits]
        for prog in progs[case["chunk"]::case["nchunks"]]:
            for dw in (False, True):
                one(prog, "clean", dw)
    elif mode == "pairs":
        i = case["first"]
        for j in range(i, len(edits)):
            one([edits[i], edits[j]], "direct", False)
    elif mode == "pairs_all":
        i = case["first"]
        for j in range(len(edits)):
            if j != i:
                one(sorted([edits[i], edits[j]],
                           key=lambda e: edits.index(e)), "direct", False)
    elif mode == "triples":
        ins = [e for e in edits if e[0] == "ins"]
        i, j = case["first"], case["second"]
        for k in range(j, len(ins)):
            one([ins[i], ins[j], ins[k]], "direct", False)
    else:
        raise ValueError(mode)
    return res


def variants():
    out = []
    for base in ("A", "B", "C", "D", "E"):
        for layout in MODEL_LAYOUTS:
            for flags in ((), ("crlfall",), ("blankchain",), ("samechain",)):
                if "samechain" in flags and base != "B":
                    continue
                out.append([base, layout, list(flags)])
    return out


def numbered_variants():
    return [[base, layout, []] for base in ("A", "C", "D")
            for layout in NUMBERED_LAYOUTS]


def enumerate_cases(tier, seed):
    cases = []
    vs = variants()
    for v in vs:
        cases.append({"mode": "singles_direct", "variant": v})
    for v in numbered_variants():
        cases.append({"mode": "pristine", "variant": v})
    if tier == "quick":
        clean_variants = [["A", "none", []], ["A", "m1m2", []]]
        pair_variants = [["A", "none", []], ["A", "m1m2", []]]
        extra = [["B", "none", ["blankchain"]], ["C", "nom1m2", []],
                 ["B", "m1", ["samechain"]], ["C", "none", ["blankchain"]]]
        pair_variants.append(extra[seed % len(extra)])
        clean_variants.append(extra[(seed + 1) % len(extra)])
    else:
        pair_variants = [v for v in vs if "crlfall" not in v[2]]
        clean_variants = vs
    nchunks = 24
    for v in clean_variants:
        for c in range(nchunks):
            cases.append({"mode": "singles_clean", "variant": v, "chunk": c,
                          "nchunks": nchunks})
    for v in pair_variants:
        n = len(single_edits(build_lines(v[0], v[1], tuple(v[2]))))
        for i in range(n):
            cases.append({"mode": "pairs", "variant": v, "first": i})
    if tier == "quick":
        # alias edits of base E / D paired with every other edit
        for v in (["E", "none", []], ["E", "m1m2", []], ["D", "none", []]):
            eds = single_edits(build_lines(v[0], v[1], tuple(v[2])))
            for i, e in enumerate(eds):
                if e[0] == "mod" and e[1] == "alias":
                    cases.append({"mode": "pairs_all", "variant": v,
                                  "first": i})
        # partial disorder (an atom in the second conformer only, parts
        # labelled C/D) on every record of base C, paired with every other
        # edit - base C holds a ligand of several atoms
        v = ["C", "none", []]
        eds = single_edits(build_lines(v[0], v[1], tuple(v[2])))
        for i, e in enumerate(eds):
            if e[0] == "mod" and e[1] in ("alt_only_b", "alt_cd"):
                cases.append({"mode": "pairs_all", "variant": v, "first": i})
    if tier == "thorough":
        v = ["A", "none", []]
        lines = build_lines("A", "none", ())
        n = len([e for e in single_edits(lines) if e[0] == "ins"])
        for i in range(n):
            for j in range(i, n):
                cases.append({"mode": "triples", "variant": v, "first": i,
                              "second": j})
    return cases


def finish(ctx):
    ctx.extra["edit_alphabet"] = {
        "insert": sorted(INSERTS), "modify_line": list(LINE_MODS),
        "modify_residue": list(RES_MODS),
        "file_level": ["crlfall", "blankchain", "samechain"],
        "model_layouts": list(MODEL_LAYOUTS), "bases": ["A", "B", "C", "D"],
    }
