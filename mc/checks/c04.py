"""C04 - input coordinates are preserved; only rigid side-chain rotations move
atoms.

Corpus S3 (host tripeptide x chain position x option set x environment with
<=2 deviations) through the real pipeline with a monitor around
Debump.set_dihedral_angle; oracle = exact coordinate preservation for the
backbone / terminal caps (and for everything under --clean, --assign-only,
--nodebump --noopt), unchanged bond lengths and angles among input heavy
atoms otherwise, and an audit of every torsion call against the bond graph.
"""

import math

import numpy as np

from .. import build, corpus, engine, pipeline, s3
from ..refs import templates as T

PROPERTY = "C04"
LEVEL = "model_checking"
RULE = (
    "every case of the S3 blocks listed in bound_completed is executed; "
    "non-trivial = distinct cases in which at least one torsion call or one "
    "displacement of an input heavy atom was observed (the rest confirm "
    "preservation on untouched structures)"
)
ASSUMPTIONS = [
    "geometry is explored on lattices (14 probe directions, 24 cube "
    "rotations, fixed probe distances); clashes between lattice points are "
    "not covered",
    "the bond graph used to audit torsion calls is the union of the residue "
    "template and all its patches, parsed independently from AA.xml / "
    "PATCHES.xml",
    "an exact exchange of the names of the two carboxyl oxygens of a "
    "protonated ASP/GLU (done by the optimiser so that the proton is on "
    "OD2/OE2) moves no atom and is not counted as a displacement",
]
BOUND = {
    "quick": "0 deviations: all 33 input names x 3 positions x 7 option sets "
    "(AMBER) and x 6 force fields (default options), with and without input "
    "hydrogens; 1 deviation: every clash probe, every single omitted atom / "
    "truncated side chain, every water probe at 2.8 A on 14 directions, "
    "partner poses for one seed-chosen partner residue (all directions x 24 "
    "rotations); every 3-residue window of 1AJJ, 1BX8, cterm_hid (real "
    "geometry); one chain with a geometric backbone gap x 20 residue types; "
    "2 deviations: every truncated side chain + a water on the position of "
    "the rebuilt atom; >=2 clash probes on one residue (all side-chain "
    "hydrogens at once, every hydrogen paired with the first/last one); two heavy atoms of one residue missing in different local frames (backbone oxygen + side-chain end, CB + side-chain end); two partner side chains on the ideal tetrahedral slots of a hydroxyl oxygen x 12 slot-frame torsions (two donors / donor + acceptor / two acceptors); the torsion alphabet: every side-chain torsion of every residue x position set to +30/+90/+180/+270 degrees through the debumper's own routine; every alternative atom name of the topology files (terminal aliases under charged and neutral termini); side chains in two alternate locations with four label pairs; all bare hosts shifted to eight-column coordinates; omitted hydrogens without debumping",
    "thorough": "quick + every 3-residue window of all seven bundled "
    "protein structures (1433 windows) + water probes at 3.4 A, partner poses for all 15 "
    "partner residues, 2 deviations (water+water, omitted atom+water), "
    "option sets x clash probes",
}




_SUPER = {}


def super_graph(base):
    """Union bond graph (name -> set(names)) over all canonical variants of a
    base residue."""
    if base in _SUPER:
        return _SUPER[base]
    _aa, _na, patches, canonical = T.load()
    g = {}
    for cname, tmpl in canonical.items():
        core = cname
        for pre in ("NEUTRAL-N", "NEUTRAL-C"):
            if core.startswith(pre):
                core = core[len(pre):]
        if len(core) == 4 and core[0] in "NC":
            core = core[1:]
        if T.base_of(core) != base:
            continue
        for a, atom in tmpl.atoms.items():
            for b in atom.bonds:
                if b in ("N+1", "C-1") or a in ("N+1", "C-1"):
                    continue
                g.setdefault(a, set()).add(b)
                g.setdefault(b, set()).add(a)
    _SUPER[base] = g
    return g


def far_side(graph, present, axis_a, axis_b):
    """Atoms (among present) on axis_b's side after cutting bond a-b."""
    seen = {axis_b}
    stack = [axis_b]
    while stack:
        cur = stack.pop()
        for nb in graph.get(cur, ()):
            if nb not in present or nb in seen:
                continue
            if cur == axis_b and nb == axis_a:
                continue
            seen.add(nb)
            stack.append(nb)
    if axis_a in seen:
        return None  # ring: the bond is not rotatable
    seen.discard(axis_b)
    return seen


def _geometry_diff(old, cur, graph, base, position):
    """Bond lengths / angles among input heavy atoms that changed."""
    out = []
    for n in old:
        nbs = [m for m in graph.get(n, ()) if m in old]
        for m in nbs:
            if n < m:
                d0 = np.linalg.norm(old[n] - old[m])
                d1 = np.linalg.norm(cur[n] - cur[m])
                if abs(d0 - d1) > 1e-6:
                    out.append((f"C04/final/{base}/{position}/"
                                f"bond-length-changed:{n}-{m}",
                                {"before": d0, "after": d1}))
        for i in range(len(nbs)):
            for j in range(i + 1, len(nbs)):
                a0 = build.angle(old[nbs[i]], old[n], old[nbs[j]])
                a1 = build.angle(cur[nbs[i]], cur[n], cur[nbs[j]])
                if abs(a0 - a1) > 1e-4:
                    out.append((f"C04/final/{base}/{position}/"
                                f"bond-angle-changed:{nbs[i]}-{n}-{nbs[j]}",
                                {"before": a0, "after": a1}))
    return out


def run_case(case):
    from pdb2pqr import debump

    res = {"evals": 1, "violations": [], "events": {}, "nontrivial": None}
    if case.get("kind") == "strand":
        # nucleic acids have no rotatable side chains: nothing may move
        in_atoms = build.build_strand(case["seq"], naming=case["naming"])
        text = build.pdb_text(in_atoms)
        for a in in_atoms:
            a["name"] = build.strand_canonical_name(a["name"])
        info = [{"kind": "na", "input": nm, "res_seq": 1 + i,
                 "position": "-"} for i, nm in enumerate(case["seq"])]
        built = (text, info, in_atoms)
    else:
        built = s3.build_case(case)
    if built is None:
        res["events"]["pose-rejected"] = 1
        res["evals"] = 0
        return res
    text, info, in_atoms = built
    opts = list(s3.OPTION_SETS[case["opt"]]) + [f"--ff={case['ff']}"]
    by_seq = {i["res_seq"]: i for i in info}
    viol = []
    calls = []

    def before(args, kwargs):
        _self, residue, anglenum = args[0], args[1], args[2]
        names = residue.reference.dihedrals[anglenum].split()
        snap = {a.name: (a.x, a.y, a.z) for a in residue.atoms}
        return (residue, anglenum, names, snap)

    def after(token, args, kwargs, result):
        residue, anglenum, names, snap = token
        moved = {a.name for a in residue.atoms
                 if a.name in snap and max(
                     abs(a.x - snap[a.name][0]), abs(a.y - snap[a.name][1]),
                     abs(a.z - snap[a.name][2])) > 1e-9}
        inf = by_seq.get(residue.res_seq)
        base = T.base_of(inf["input"]) if inf else residue.name
        pos = inf["position"] if inf else "?"
        graph = super_graph(base)
        present = set(snap)
        far = far_side(graph, present, names[1], names[2])
        calls.append((base, pos, " ".join(names), len(moved)))
        if far is None:
            if moved:
                viol.append((f"C04/torsion/{base}/{pos}/{names[1]}-{names[2]}/"
                             "axis-is-not-a-rotatable-bond",
                             {"moved": sorted(moved)}))
            return
        wrong = moved - far
        if wrong:
            viol.append((
                f"C04/torsion/{base}/{pos}/{names[1]}-{names[2]}/"
                f"moved-atoms-not-beyond-the-bond:{','.join(sorted(wrong))}",
                {"dihedral": names, "moved": sorted(moved),
                 "beyond_bond": sorted(far)}))
        left = far - moved
        if moved and left:
            # atoms lying on the rotation axis (CZ/HZ of a phenyl ring for
            # the CB-CG axis) do not move: predicted displacement
            # d_m * r_l / r_m from a moved atom m well off the axis
            pa_ = np.array(snap[names[1]])
            ax_ = np.array(snap[names[2]]) - pa_
            ax_ /= np.linalg.norm(ax_)

            def radius(nm):
                v = np.array(snap[nm]) - pa_
                return float(np.linalg.norm(v - np.dot(v, ax_) * ax_))
            ref = max(moved, key=radius)
            cur = residue.get_atom(ref)
            dm = float(np.linalg.norm(np.array([cur.x, cur.y, cur.z])
                                      - np.array(snap[ref])))
            rm = radius(ref)
            left = {l for l in left
                    if rm > 1e-9 and dm * radius(l) / rm > 1e-6}
        if moved and left:
            viol.append((
                f"C04/torsion/{base}/{pos}/{names[1]}-{names[2]}/"
                f"atoms-beyond-the-bond-left-behind:{','.join(sorted(left))}",
                {"dihedral": names, "moved": sorted(moved),
                 "beyond_bond": sorted(far)}))
        # rigid rotation about the axis: distances to both axis atoms kept
        pa = np.array(snap[names[1]])
        pb = np.array(snap[names[2]])
        for a in residue.atoms:
            if a.name not in moved:
                continue
            old = np.array(snap[a.name])
            new = np.array([a.x, a.y, a.z])
            for p in (pa, pb):
                if abs(np.linalg.norm(old - p) - np.linalg.norm(new - p)) > 1e-6:
                    viol.append((
                        f"C04/torsion/{base}/{pos}/{names[1]}-{names[2]}/"
                        "not-a-rotation-about-the-bond",
                        {"atom": a.name}))
                    break

    with pipeline.monitor(debump.Debump, "set_dihedral_angle", before=before,
                          after=after), s3.torsion_drive(case, info):
        r = pipeline.run(text, opts)
    if not r.ok:
        res["events"][f"run-failed:{r.exc[0]}"] = 1
        return res
    # ---- final-state oracle ------------------------------------------------
    final = {}
    for a in r.bm.atoms:
        final[(a.res_seq, a.name)] = a
    strict = case["opt"] in ("clean", "assign_only", "nodebump_noopt",
                             "nodebump_noopt_pka")
    moved_heavy = []
    # The optimiser may exchange the *names* of the two chemically equivalent
    # carboxyl oxygens of a protonated ASP/GLU so that the proton sits on
    # OD2/OE2; no atom moves.  Such an exact exchange is undone here before
    # coordinates are compared (and counted as an observed outcome).
    swapped = 0
    for pair in (("OD1", "OD2"), ("OE1", "OE2")):
        for seq in {a["res_seq"] for a in in_atoms}:
            ia = [next((a for a in in_atoms if a["res_seq"] == seq
                        and a["name"] == n), None) for n in pair]
            fa = [final.get((seq, n)) for n in pair]
            if None in ia or None in fa:
                continue
            x0, x1 = np.round(ia[0]["xyz"], 3), np.round(ia[1]["xyz"], 3)
            if (max(abs(np.array([fa[0].x, fa[0].y, fa[0].z]) - x1)) < 1e-9
                    and max(abs(np.array([fa[1].x, fa[1].y, fa[1].z]) - x0))
                    < 1e-9 and max(abs(x0 - x1)) > 1e-6):
                final[(seq, pair[0])], final[(seq, pair[1])] = fa[1], fa[0]
                swapped += 1
    for a in in_atoms:
        if a["name"].startswith("H"):
            continue
        inf = by_seq.get(a["res_seq"])
        key = (a["res_seq"], a["name"])
        fa = final.get(key)
        if fa is None:
            continue  # loss is C03's business
        xin = np.round(a["xyz"], 3)
        d = max(abs(fa.x - xin[0]), abs(fa.y - xin[1]), abs(fa.z - xin[2]))
        if d > 1e-9:
            moved_heavy.append((a, fa, d))
            is_bb = a["name"] in ("N", "CA", "C", "O", "OXT")
            base = T.base_of(inf["input"]) if inf else a["res_name"]
            pos = inf["position"] if inf and inf.get("position") else "-"
            if inf and inf["kind"] == "na":
                viol.append((f"C04/final/{base}/nucleic-acid-atom-moved:"
                             f"{a['name']}", {"displacement": d,
                                              "opt": case["opt"]}))
            elif is_bb:
                viol.append((f"C04/final/{base}/{pos}/backbone-or-cap-moved:"
                             f"{a['name']}", {"displacement": d,
                                              "opt": case["opt"]}))
            elif strict:
                viol.append((f"C04/final/{base}/{pos}/moved-although-"
                             f"{case['opt']}:{a['name']}",
                             {"displacement": d}))
    # bond lengths and angles among input heavy atoms
    if moved_heavy and not strict:
        byres = {}
        for a in in_atoms:
            if not a["name"].startswith("H") and a["record"] == "ATOM":
                byres.setdefault(a["res_seq"], {})[a["name"]] = a
        for seq, atoms in byres.items():
            inf = by_seq.get(seq)
            if inf is None or inf["kind"] != "aa":
                continue
            base = T.base_of(inf["input"])
            graph = super_graph(base)
            cur = {}
            for n in atoms:
                fa = final.get((seq, n))
                if fa is not None:
                    cur[n] = np.array([fa.x, fa.y, fa.z])
            old = {n: np.round(a["xyz"], 3) for n, a in atoms.items()
                   if n in cur}
            local = _geometry_diff(old, cur, graph, base, inf["position"])
            if local and base in ("ASP", "GLU"):
                # same comparison with the two carboxyl oxygen names exchanged
                p, q = ("OD1", "OD2") if base == "ASP" else ("OE1", "OE2")
                if p in cur and q in cur:
                    cur2 = dict(cur)
                    cur2[p], cur2[q] = cur[q], cur[p]
                    if not _geometry_diff(old, cur2, graph, base,
                                          inf["position"]):
                        local = []
                        swapped += 1
            viol += local
    ev = res["events"]
    ev["runs-ok"] = 1
    if calls:
        ev["runs-with-torsion-calls"] = 1
        ev["torsion-calls"] = len(calls)
        for base, pos, names, nm in calls:
            k = f"torsion:{base}:{pos}:{names}"
            ev[k] = ev.get(k, 0) + 1
    if moved_heavy:
        ev["runs-with-moved-input-heavy-atoms"] = 1
        if not calls:
            ev["moved-without-torsion-call(flip)"] = 1
    if swapped:
        ev["carboxyl-oxygen-names-exchanged"] = swapped
    if calls or moved_heavy:
        res["nontrivial"] = engine._h(case)
    seen = set()
    for sig, detail in viol:
        if sig not in seen:
            seen.add(sig)
            res["violations"].append({"sig": sig, "detail": detail})
    return res


def enumerate_cases(tier, seed):
    cases = []
    cases += s3.bare_cases(["AMBER"], [o for o in s3.OPTION_SETS
                                       if o not in s3.NEUTRAL_SETS])
    cases += s3.bare_cases([f for f in corpus.FFS if f != "AMBER"],
                           ["default"])
    for d in s3.bare_cases(["PARSE"], ["default", "nodebump_noopt", "noopt"]):
        d = dict(d)
        d["hydrogens"] = True
        cases.append(d)
    for d in s3.bare_cases(["AMBER"], ["default", "nodebump_noopt", "clean"]):
        d = dict(d)
        d["shift"] = [-150.0, 1200.0, -300.0]
        cases.append(d)
    cases += s3.clash_cases("AMBER")
    cases += s3.omit_cases("AMBER")
    cases += s3.water_cases("AMBER", dists=(2.8,))
    cases += s3.omit_backbone_cases("AMBER")
    cases += s3.omit_pair_cases("AMBER", all_pairs=(tier != "quick"))
    cases += s3.omit_h_cases("PARSE")
    # the same without debumping: nothing refreshes the bond lists between
    # reading the hydrogens and adding the missing one
    cases += s3.omit_h_cases("PARSE", names=["ALA", "GLY", "SER", "LYS",
                                             "PRO", "HIS", "THR"],
                             opts=("nodebump", "nodebump_noopt"))
    # sibling hydrogens of which one is given, records in both orders
    cases += s3.keep_one_h_cases("PARSE", names=None if tier != "quick"
                                 else ["ALA", "GLY", "LYS", "ASN", "PRO"])
    cases += s3.neutral_cases()
    cases += s3.multi_clash_cases("AMBER", all_pairs=(tier != "quick"))
    cases += s3.gap_cases("AMBER", ("default", "noopt"))
    cases += s3.rebuilt_clash_cases("AMBER", opts=("default", "nodebump",
                                                   "nodebump_noopt"))
    # the same clashes through the pKa path with debumping switched off
    for c in s3.clash_cases("AMBER", names=["HIS", "LYS", "SER", "ILE", "TRP",
                                            "ARG", "ASN", "THR", "GLY"]
                            if tier == "quick" else None):
        c = dict(c)
        c["opt"] = "nodebump_noopt_pka"
        cases.append(c)
    cases += s3.asym_acid_cases()
    cases += s3.tetra_partner_cases("AMBER")
    cases += s3.torsion_cases("AMBER")
    cases += s3.alias_cases()
    cases += s3.altloc_cases("AMBER")
    cases += s3.water_h_cases("AMBER")
    # waters that come with both hydrogens: isolated pairs on the direction
    # lattice (donor / acceptor / neither), thorough: also next to every
    # polar atom and in rows of two
    cases += s3.water_pair_cases("AMBER")
    if tier != "quick":
        cases += s3.water_with_h_cases("AMBER")
        cases += s3.water_chain_cases("AMBER")
    for seq, naming in ((["DA", "DT", "DG", "DC"], "legacy"),
                        (["RA", "RU", "RG", "RC"], "modern"),
                        (["DT", "DC"], "star"), (["RG", "RU"], "short")):
        for ff in ("AMBER", "CHARMM"):
            for opt in ("default", "nodebump_noopt"):
                cases.append({"kind": "strand", "seq": seq, "naming": naming,
                              "ff": ff, "opt": opt, "env": []})
    wfiles = (["1AJJ.pdb", "1BX8.pdb", "cterm_hid.pdb"] if tier == "quick"
              else None)
    cases += s3.window_cases("AMBER", wfiles)
    # spatial neighbourhoods of every residue (real hydrogen-bond networks)
    small = ["1AJJ.pdb", "1BX8.pdb", "cterm_hid.pdb"]
    cases += s3.hood_cases("AMBER", small if tier == "quick" else None)
    if tier == "thorough":
        cases += s3.window_cases("PARSE", ["1AJJ.pdb", "1BX8.pdb",
                                           "cterm_hid.pdb"], opt="noopt")
        cases += s3.hood_cases("AMBER", small, radius=7.0)
        cases += s3.hood_cases("PARSE", small + ["1K1I.pdb"], oxt=True)
        for opt in ("noopt", "nodebump", "nodebump_noopt"):
            cases += s3.hood_cases("AMBER", small, opt=opt, oxt=True)
    if tier == "quick":
        P = s3.PARTNERS[seed % len(s3.PARTNERS)]
        flip_hosts = ["ASN", "GLN", "HIS", "SER", "ASP", "TYR"]
        cases += s3.partner_cases("AMBER", [P], hosts=flip_hosts,
                                  dirs=range(0, 14, 2))
    else:
        cases += s3.water_cases("AMBER", dists=(3.4,))
        cases += s3.partner_cases("AMBER", s3.PARTNERS)
        cases += s3.two_water_cases("AMBER")
        cases += s3.water_omit_cases("AMBER")
        for opt in ("noopt", "nodebump"):
            for c in s3.clash_cases("PARSE"):
                c = dict(c)
                c["opt"] = opt
                cases.append(c)
    return cases
