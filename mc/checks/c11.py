"""C11 - runs are deterministic and independent of process history.

Search over run histories issued through the programmatic entry point in ONE
process: every sequence of <=2 (thorough <=3) runs from an alphabet of 20 run
descriptors (successful and failing) is executed in a fresh child process;
each run's PQR bytes must equal the bytes the same run produces alone in a
fresh process.  After every run a structural fingerprint of pdb2pqr's
process-level state (module globals, class attributes, function defaults,
logger filters) is taken: nodes/edges of that state graph are reported.
Separately every run is repeated in fresh processes under several hash seeds.
"""

import json
import os
import subprocess
import sys

from .. import build, engine, pipeline

PROPERTY = "C11"
LEVEL = "model_checking"
RULE = (
    "all histories of length <=2 (thorough <=3) over a 19-run alphabet, each "
    "in its own fresh process, plus every run alone under hash seeds 0,1,2 "
    "and a seed-derived one; states = distinct process-state fingerprints, "
    "transitions = distinct (fingerprint, run, fingerprint') edges; "
    "non-trivial = histories of length >=2 (an earlier run precedes the "
    "compared one)"
)
ASSUMPTIONS = [
    "the fingerprint sees Python-level state of pdb2pqr modules only "
    "(C-level and third-party state is invisible), so it is reported as "
    "evidence of closure and never used to prune histories",
    "the reference output of a run is what it produces alone in a fresh "
    "process with PYTHONHASHSEED=0",
]
BOUND = {
    "quick": "20 single runs x 4 hash seeds; all 400 histories of length 2; 80 interleaved repetition histories of length 11-13 (every run 6-7 times with the others in between)",
    "thorough": "quick + all 8000 histories of length 3 + 8 hash seeds",
}

ETHANOL = (engine.REPO / "tests/data/ethanol.mol2")
RUNS = ["pep_amber", "pep_parse_opts", "strand_charmm", "titrated",
        "ligand", "clean", "fail_parse", "fail_charge", "userff_ok",
        "repair", "bare_model", "two_models", "fail_gap", "cif_models",
        "cif_layout2", "propka_a", "propka_b", "c2_symmetric",
        "flip_ends", "hidden_chain"]


def execute(rid):
    """Run descriptor -> (pipeline.Result, meta).  Used by the child."""
    meta = {}
    if rid == "pep_amber":
        atoms = build.build_peptide(["SER", "HIS", "ASP", "LYS"])
        atoms.append(build.water((9.0, 9.0, 9.0), 100))
        return pipeline.run(build.pdb_text(atoms), ["--ff=AMBER"]), meta
    if rid == "pep_parse_opts":
        atoms = build.build_peptide(["TYR", "ASN", "GLU", "CYS"])
        atoms.append(build.water((2.0, 7.0, 5.0), 100))
        # the APBS input names the scratch path of the PQR file, which differs
        # per process by construction: only the PDB output is compared
        meta["extra_outputs"] = ["m.pdb"]
        return pipeline.run(build.pdb_text(atoms), [
            "--ff=PARSE", "--neutraln", "--whitespace", "--keep-chain",
            "--ffout=CHARMM", "--pdb-output=@out:m.pdb",
            "--apbs-input=@out:a.in"]), meta
    if rid == "hidden_chain":
        # two peptides sharing one chain id without TER, the first ending in
        # OXT: the second is moved to an unused chain id, which --keep-chain
        # shows in the output
        a = build.build_peptide(["SER", "ALA", "LYS"], chain="A")
        b = build.build_peptide(["GLU", "GLY", "THR"], chain="A", start=4,
                                origin=(0.0, 0.0, 20.0))
        for at in b:
            at["res_idx"] += 3
        return pipeline.run(build.pdb_text(a + b, ter=False),
                            ["--ff=AMBER", "--keep-chain"]), meta
    if rid == "strand_charmm":
        atoms = build.build_strand(["DA", "DT", "DG"])
        return pipeline.run(build.pdb_text(atoms), ["--ff=CHARMM"]), meta
    if rid == "titrated":
        seq = ["ALA", "ASP", "HIS", "LYS", "TYR", "ALA"]
        atoms = build.build_peptide(seq)
        pk = {"ASP": 9.0, "HIS": 9.0, "LYS": 3.0, "TYR": 3.0}
        rows = [{"res_num": 1 + i, "ins_code": "", "res_name": n,
                 "chain_id": "A", "group_label": f"{n:<3}{1 + i:>4} A",
                 "group_type": None, "pKa": pk[n], "model_pKa": pk[n],
                 "buried": 0.0, "coupled_group": None}
                for i, n in enumerate(seq) if n in pk]
        with pipeline.inject_pka(rows):
            return pipeline.run(build.pdb_text(atoms), [
                "--ff=PARSE", "--titration-state-method=propka",
                "--with-ph=7", "--keep-chain"]), meta
    if rid == "ligand":
        atoms = build.build_peptide(["ALA", "SER", "ALA"])
        mol2 = ETHANOL.read_text()
        n = 0
        sect = None
        for line in mol2.splitlines():
            if line.startswith("@<TRIPOS>"):
                sect = line.strip()
                continue
            if sect == "@<TRIPOS>ATOM" and line.split():
                w = line.split()
                n += 1
                atoms.append(build.BAtom(
                    name=w[1], res_name="DRG", chain="L", res_seq=900,
                    icode="", xyz=__import__("numpy").array(
                        [float(w[2]) + 30, float(w[3]) + 30, float(w[4])]),
                    record="HETATM", res_idx=-1))
        return pipeline.run(build.pdb_text(atoms),
                            ["--ff=AMBER", "--ligand=@lig.mol2"],
                            files={"lig.mol2": mol2}), meta
    if rid == "clean":
        atoms = build.build_peptide(["GLY", "PRO", "TRP"])
        return pipeline.run(build.pdb_text(atoms), ["--clean"]), meta
    if rid == "fail_parse":
        text = "ATOM      1  N   ALA A   1      xx.xxx   0.000   0.000\nEND\n"
        return pipeline.run(text, ["--ff=AMBER"]), meta
    if rid == "repair":
        # several heavy atoms missing at once (branched side chains)
        seq = ["ALA", "LEU", "ARG", "THR", "VAL"] + ["ALA"] * 16
        atoms = build.build_peptide(
            seq, omit={1: {"CD1", "CD2"}, 2: {"NH1", "NH2"},
                       3: {"OG1", "CG2"}, 4: {"CG1", "CG2"}})
        return pipeline.run(build.pdb_text(atoms), ["--ff=AMBER"]), meta
    if rid == "bare_model":
        # a MODEL record without serial number is tolerated (record skipped)
        atoms = build.build_peptide(["GLY", "ASN", "ALA"])
        text = build.pdb_text(atoms).replace(
            "HEADER", "MODEL\nHEADER", 1)
        return pipeline.run(text, ["--ff=AMBER"]), meta
    if rid == "two_models":
        atoms = build.build_peptide(["SER", "GLU", "ALA"])
        body = build.pdb_text(atoms, end=False, header=False)
        atoms2 = build.build_peptide(["SER", "GLU", "ALA"],
                                     origin=(0.3, 0.0, 0.0))
        body2 = build.pdb_text(atoms2, end=False, header=False)
        text = ("MODEL        1\n" + body + "ENDMDL\nMODEL        2\n"
                + body2 + "ENDMDL\nEND\n")
        return pipeline.run(text, ["--ff=AMBER"]), meta
    if rid == "fail_gap":
        # more than a tenth of the heavy atoms missing (no repair attempted),
        # one of them interior: CG..NZ of the lysine are cut off from CA.
        # Shares residue types with the successful runs of the alphabet.
        atoms = build.build_peptide(
            ["SER", "GLU", "LYS", "VAL", "ALA", "LYS"],
            omit={1: {"OE1", "OE2"}, 2: {"CB"}, 3: {"CG1", "CG2"}, 4: {"CB"}})
        return pipeline.run(build.pdb_text(atoms), ["--ff=AMBER"]), meta
    if rid == "cif_models":
        # four-model mmCIF entry (only the first model is used)
        from . import c10
        models = []
        for i in range(4):
            m = build.build_peptide(["SER", "LYS", "ALA"],
                                    origin=(0.4 * i, 0.0, 0.0))
            for a in m:
                a["alt"] = ""
            models.append(m)
        return pipeline.run(c10.cif_text(models), ["--ff=AMBER"],
                            input_name="in.cif"), meta
    if rid == "flip_ends":
        # flippable residues at both chain ends (the terminal variants of
        # the flip set-up), two chains
        a = build.build_peptide(["GLN", "ALA", "HIS", "ASN"], chain="A")
        b = build.build_peptide(["ASN", "SER", "HIS"], chain="B", start=11,
                                origin=(0.0, 0.0, 22.0))
        return pipeline.run(build.pdb_text(a + b), ["--ff=AMBER"]), meta
    if rid == "cif_layout2":
        # a second mmCIF file whose atom_site loop is laid out differently
        # (item order, *_esd items) from the first one's
        from . import c10
        m = build.build_peptide(["THR", "ASP", "GLY"])
        m.append(build.water((9.0, 9.0, 9.0), 100))
        for a in m:
            a["alt"] = ""
        return pipeline.run(c10.cif_text([m], layout=5), ["--ff=AMBER"],
                            input_name="in.cif"), meta
    if rid in ("propka_a", "propka_b"):
        # the real PROPKA on two different structures that carry the same
        # file name, at a pH where their protonation states differ
        seq = (["ALA", "ASP", "GLU", "HIS", "ALA"] if rid == "propka_a"
               else ["GLY", "HIS", "LYS", "GLU", "TYR", "GLY"])
        atoms = build.build_peptide(seq)
        return pipeline.run(build.pdb_text(atoms), [
            "--ff=PARSE", "--titration-state-method=propka",
            "--with-ph=3.0"]), meta
    if rid == "c2_symmetric":
        # two copies related by an exact two-fold axis (x,y,z)->(-x,-y,z)
        # and waters on the axis: candidate hydrogen bonds of bit-identical
        # length (ties in every distance-ordered list)
        import numpy as np

        a = build.build_peptide(["ALA", "SER", "ASN", "ALA"], chain="A")
        og = next(x for x in a if x["name"] == "OG")["xyz"].copy()
        cen = np.mean([x["xyz"] for x in a], axis=0)
        u = cen - og
        u[2] = 0.0
        u /= np.linalg.norm(u)
        v = np.array([-u[1], u[0], 0.0])
        Rz = np.array([u, v, [0.0, 0.0, 1.0]])  # u -> +x
        for x in a:
            x["xyz"] = np.round(Rz @ (x["xyz"] - og)
                                + np.array([2.2, 0.0, 0.0]), 3)
        b = build.build_peptide(["ALA", "SER", "ASN", "ALA"], chain="B")
        for x, y in zip(a, b):
            y["xyz"] = np.array([-x["xyz"][0], -x["xyz"][1], x["xyz"][2]])
        waters = [build.water((0.0, 0.0, 1.732), 101),
                  build.water((0.0, 0.0, -1.732), 102)]
        return pipeline.run(build.pdb_text(a + b + waters),
                            ["--ff=AMBER"]), meta
    if rid == "userff_ok":
        # a second, different user force-field pair (the bundled one)
        atoms = build.build_peptide(["GLY", "SER", "LYS"])
        dat = (engine.REPO / "tests/data/custom-ff.dat").read_text()
        names = (engine.REPO / "tests/data/custom.names").read_text()
        return pipeline.run(build.pdb_text(atoms),
                            ["--userff=@v.dat", "--usernames=@v.names"],
                            files={"v.dat": dat, "v.names": names}), meta
    if rid == "fail_charge":
        # user force field with a fractional charge -> non-integral total
        atoms = build.build_peptide(["GLY", "GLY", "GLY"])
        dat = (engine.REPO / "pdb2pqr/dat/AMBER.DAT").read_text().replace(
            "GLY\tCA\t-0.025200", "GLY\tCA\t-0.325200")
        names = (engine.REPO / "pdb2pqr/dat/AMBER.names").read_text()
        return pipeline.run(build.pdb_text(atoms),
                            ["--userff=@u.dat", "--usernames=@u.names"],
                            files={"u.dat": dat, "u.names": names}), meta
    raise ValueError(rid)


def child(history, hashseed="0"):
    env = dict(os.environ)
    env["PYTHONHASHSEED"] = str(hashseed)
    env.pop("VERIF_SCRATCH_ROOT", None)
    p = subprocess.run(
        [sys.executable, "-m", "mc.c11_child"],
        input=json.dumps({"history": history, "verif": str(engine.VERIF)}),
        capture_output=True, text=True, env=env, cwd=str(engine.VERIF))
    for line in p.stdout.splitlines():
        if line.startswith("C11RESULT="):
            return json.loads(line[10:])
    raise RuntimeError("child failed: " + p.stderr[-400:])


_REF = {}


def reference(rid):
    if rid not in _REF:
        _REF[rid] = child([rid], "0")[0]
    return _REF[rid]


def same(a, b):
    if a["ok"] != b["ok"]:
        return False
    if a["ok"]:
        return a["sha"] == b["sha"] and a["extra"] == b["extra"]
    return a["exc"] == b["exc"] and a["out_exists"] == b["out_exists"]


def run_case(case):
    res = {"evals": 0, "violations": [], "events": {}, "nontrivial": [],
           "states": 0, "transitions": 0}
    if case["mode"] == "seeds":
        rid = case["run"]
        ref = reference(rid)
        res["evals"] += 1
        for hs in case["hashseeds"]:
            out = child([rid], hs)[0]
            res["evals"] += 1
            if not same(out, ref):
                res["violations"].append({
                    "sig": f"C11/hash-seed-dependent-output/{rid}",
                    "detail": {"hashseed": hs, "ref": ref, "got": out}})
            res["events"][f"fp:{out['fp']}"] = 1
        res["events"][f"single:{rid}:{'ok' if ref['ok'] else ref['exc']}"] = 1
        return res
    history = case["history"]
    outs = child(history, "0")
    res["evals"] += len(history)
    res["nontrivial"] = [">".join(history)]
    prev_fp = "fresh"
    for k, (rid, out) in enumerate(zip(history, outs)):
        ref = reference(rid)
        if not same(out, ref):
            before = history[:k]
            culprit = before[-1] if before else "-"
            kind = ("outcome" if out["ok"] != ref["ok"] else
                    "pqr-bytes" if out["ok"] else "failure-class")
            res["violations"].append({
                "sig": f"C11/history-dependent/{kind}/{rid}/after:{culprit}",
                "detail": {"history": history, "position": k,
                           "ref": ref, "got": out}})
        res["events"][f"fp:{out['fp']}"] = 1
        res["events"][f"edge:{prev_fp}>{rid}>{out['fp']}"] = 1
        prev_fp = out["fp"]
    return res


def finish(ctx):
    fps = [k for k in ctx.events if k.startswith("fp:")]
    edges = [k for k in ctx.events if k.startswith("edge:")]
    ctx.states = len(fps) + 1
    ctx.transitions = len(edges)
    ctx.extra["process_state_graph"] = {
        "distinct_fingerprints": len(fps), "edges": len(edges)}


def enumerate_cases(tier, seed):
    cases = []
    seeds = ["1", "2", str(3 + seed % 1000)]
    if tier == "thorough":
        seeds += ["7", "11", "42", "12345"]
    for rid in RUNS:
        cases.append({"mode": "seeds", "run": rid, "hashseeds": seeds})
    for a in RUNS:
        for b in RUNS:
            cases.append({"mode": "history", "history": [a, b]})
    # long histories: every run repeated with other runs in between (state
    # that drifts with what the process allocated before, e.g. an order
    # taken from object addresses, shows only after several repetitions)
    for a in RUNS:
        others = [r for r in RUNS if r != a]
        for k in range(0, len(others), 6):
            hist = [a]
            for o in others[k:k + 6]:
                hist += [o, a]
            cases.append({"mode": "history", "history": hist})
    if tier == "thorough":
        for a in RUNS:
            for b in RUNS:
                for c in RUNS:
                    cases.append({"mode": "history", "history": [a, b, c]})
    return cases
