"""C13 - disulfide bridges are detected symmetrically and exclusively.

Two ALA-CYS-ALA / CYS-ALA-ALA / ALA-ALA-CYS units related by a 180 degree
rotation so that the SG..SG distance takes every value of a lattice around the
2.5 A limit, crossed with file order, chain layout, numbering, input HG
presence, CYS chain position, force field and option set.  Oracle: below the
limit both partners are bridged (no HG, bridged parameters, mutual partner
pointers); above it both keep HG and thiol parameters; the outcome is the same
for all layouts of one geometry.
"""

import numpy as np

from .. import build, corpus, engine, pipeline
from ..refs import ff_ref
from ..refs import templates as T
from . import c01

PROPERTY = "C13"
LEVEL = "exploration"
RULE = (
    "complete product distance lattice x layout x input-HG pattern x CYS "
    "position x force field x option set; non-trivial = distinct (distance "
    "side, layout, HG pattern, position, force field, option set) cells; the "
    "distance is recomputed from the 3-decimal file coordinates"
)
ASSUMPTIONS = [
    "geometry: the two SG atoms and their CB atoms are collinear (180 degree "
    "rotation about an axis through the S-S midpoint); only the SG..SG "
    "distance matters to the statement",
    "exactly 2.5 A (within file precision) is not generated; three-sulfur "
    "clusters are excluded by the statement",
]
BOUND = {
    "quick": "10 distances x 10 layouts (two differ in the serial-number "
    "column only) x 3 HG patterns x 3 positions x {AMBER, PARSE, CHARMM, + "
    "one seed-chosen} x {default, --nodebump --noopt}; "
    "rigid placements: 5 distances x 24 axis orientations x 8 shifts of "
    "0.25 A along the S-S axis; two pairs in one structure (4 x 4 distance "
    "combinations x 3 positions); a clean pair next to an ambiguous "
    "three-sulfur cluster (4 file orders x 2 HG patterns x 3 positions)",
    "thorough": "all six force fields",
}
DISTANCES = [1.9, 2.04, 2.3, 2.49, 2.499, 2.501, 2.51, 2.6, 3.0, 5.0]
LAYOUTS = ["AB", "BA", "same_id", "blank_ter", "descending", "icode",
           "negative", "lower", "serial_restart", "serial_same"]
HG = ["none", "first", "both"]


def unit(pos, hg):
    seq, idx = corpus.host_sequence("CYS", pos)
    atoms = build.build_peptide(seq, hydrogens=False)
    if hg:
        full = build.build_peptide(seq, hydrogens=True)
        h = next(a for a in full if a["res_idx"] == idx and a["name"] == "HG")
        # keep records of the residue contiguous
        last = max(i for i, a in enumerate(atoms) if a["res_idx"] == idx)
        atoms.insert(last + 1, h)
    return atoms, idx


def build_pair(case):
    d = case["d"]
    pos = case["pos"]
    hg = case["hg"]
    u1, idx = unit(pos, hg in ("first", "both"))
    u2, _ = unit(pos, hg == "both")
    sg = next(a for a in u1 if a["res_idx"] == idx and a["name"] == "SG")["xyz"]
    cb = next(a for a in u1 if a["res_idx"] == idx and a["name"] == "CB")["xyz"]
    u = (sg - cb) / np.linalg.norm(sg - cb)
    mid = sg + 0.5 * d * u
    # axis through mid, perpendicular to u
    w = np.cross(u, [0.0, 0.0, 1.0])
    if np.linalg.norm(w) < 1e-6:
        w = np.cross(u, [0.0, 1.0, 0.0])
    w /= np.linalg.norm(w)
    R = 2.0 * np.outer(w, w) - np.eye(3)  # rotation by 180 degrees about w
    for a in u2:
        a["xyz"] = R @ (a["xyz"] - mid) + mid
    layout = case["layout"]
    n1, n2 = [1, 2, 3], [11, 12, 13]
    ic1 = ic2 = None
    c1, c2 = "A", "B"
    if layout == "same_id":
        c2 = "A"
    elif layout == "blank_ter":
        c1 = c2 = ""
    elif layout == "descending":
        n1, n2 = [9, 8, 7], [29, 28, 27]
    elif layout == "icode":
        n1, n2 = [5, 5, 5], [6, 6, 6]
        ic1 = ic2 = ["", "A", "B"]
    elif layout == "negative":
        n1, n2 = [-9, -8, -7], [-3, -2, -1]
    elif layout == "lower":
        c1, c2 = "a", "b"
    info = []
    for atoms, nums, ics, ch in ((u1, n1, ic1, c1), (u2, n2, ic2, c2)):
        for a in atoms:
            i = a["res_idx"]
            a["chain"] = ch
            a["res_seq"] = nums[i]
            a["icode"] = ics[i] if ics else ""
        seq, _ = corpus.host_sequence("CYS", pos)
        for i, name in enumerate(seq):
            info.append({"kind": "aa", "input": name,
                         "position": ("n", "mid", "c")[i], "chain": ch,
                         "res_seq": nums[i], "icode": ics[i] if ics else "",
                         "is_cys": i == idx})
    atoms = (u2 + u1) if layout == "BA" else (u1 + u2)
    # distance from file precision
    s1 = np.round(next(a for a in u1 if a["name"] == "SG")["xyz"], 3)
    s2 = np.round(next(a for a in u2 if a["name"] == "SG")["xyz"], 3)
    return atoms, info, float(np.linalg.norm(s1 - s2))


def pair_text(atoms, layout):
    """PDB text of a pair; two layouts differ in the serial-number column
    only: numbering restarts with every chain (both SG carry the same
    serial), or every record carries the same number (wrapped column)."""
    text = build.pdb_text(atoms)
    if layout not in ("serial_restart", "serial_same"):
        return text
    out, n = [], 0
    for line in text.splitlines():
        rec = line[:6].strip()
        if rec in ("ATOM", "HETATM", "TER"):
            n += 1
            serial = n if layout == "serial_restart" else 99999
            line = line[:6] + f"{serial:>5}" + line[11:]
            if rec == "TER":
                n = 0
        out.append(line)
    return "\n".join(out) + "\n"


def run_placement(case):
    """Rigid placements of one pair: the S-S vector is aligned with a
    coordinate axis (24 cube rotations) and shifted along it in 0.25 A steps
    over one 2 A cell, so that every position relative to any axis-aligned
    grid is covered."""
    from pdb2pqr import aa

    res = {"evals": 0, "violations": [], "events": {}, "nontrivial": []}
    atoms0, info, _d = build_pair({"d": case["d"], "pos": "mid", "hg": "none",
                                   "layout": "AB"})
    sgs = [a["xyz"] for a in atoms0 if a["name"] == "SG"]
    u = (sgs[1] - sgs[0]) / np.linalg.norm(sgs[1] - sgs[0])
    # rotation taking u to the x axis
    R0, _t = build.kabsch([np.zeros(3), u, np.cross(u, [0.3, 0.5, 0.8])],
                          [np.zeros(3), np.array([1.0, 0, 0]),
                           np.array([0.0, 1.0, 0.0]) * np.linalg.norm(
                               np.cross(u, [0.3, 0.5, 0.8]))])
    mid = 0.5 * (sgs[0] + sgs[1])
    R = build.CUBE_ROTATIONS[case["rot"]]
    axis = R @ np.array([1.0, 0.0, 0.0])
    seen = set()
    for step in range(8):
        atoms = [build.BAtom(a) for a in atoms0]
        for a in atoms:
            a["xyz"] = R @ (R0 @ (a["xyz"] - mid)) + axis * 0.25 * step \
                + np.array([0.125, 0.125, 0.125])
        s1, s2 = [np.round(a["xyz"], 3) for a in atoms if a["name"] == "SG"]
        d = float(np.linalg.norm(s1 - s2))
        if abs(d - 2.5) < 1e-9:
            continue
        r = pipeline.run(build.pdb_text(atoms),
                         ["--ff=AMBER", "--nodebump", "--noopt"])
        res["evals"] += 1
        if not r.ok:
            res["events"]["run-failed"] = 1
            continue
        cys = [x for x in r.bm.residues if isinstance(x, aa.CYS)]
        has = [x.has_atom("HG") for x in cys]
        side = "below" if d < 2.5 else "above"
        ok = (not any(has) and all(x.ss_bonded for x in cys)) \
            if side == "below" else (all(has) and not any(x.ss_bonded for x in cys))
        res["nontrivial"].append(f"placement:{case['d']}:{case['rot']}:{step}")
        if not ok:
            sig = f"C13/placement/{side}/outcome-depends-on-position"
            if sig not in seen:
                seen.add(sig)
                res["violations"].append({
                    "sig": sig, "detail": {"d": d, "rot": case["rot"],
                                           "step": step, "has_hg": has,
                                           "sg": [list(map(float, s1)),
                                                  list(map(float, s2))]}})
    return res


def run_cluster(case):
    """A clean pair next to an ambiguous cluster of three sulfurs (about
    which nothing is claimed): the pair must be bridged symmetrically
    wherever the cluster's chains stand in the file."""
    from pdb2pqr import aa

    res = {"evals": 1, "violations": [], "events": {}, "nontrivial": []}
    pair, _i, dpair = build_pair({"d": 2.04, "pos": case["pos"],
                                  "hg": case["hg"], "layout": "AB"})
    clus, _i2, _d = build_pair({"d": 2.04, "pos": case["pos"], "hg": "none",
                                "layout": "AB"})
    for a in clus:
        a["xyz"] = a["xyz"] + np.array([0.0, 0.0, 45.0])
    s1, s2 = [a["xyz"] for a in clus if a["name"] == "SG"]
    third = [build.BAtom(a) for a in clus if a["chain"] == "A"]
    t3 = next(a["xyz"] for a in third if a["name"] == "SG")
    shift = s2 + 2.2 * (s2 - s1) / np.linalg.norm(s2 - s1) - t3
    for a in third:
        a["xyz"] = a["xyz"] + shift
    units = {"p1": [a for a in pair if a["chain"] == "A"],
             "p2": [a for a in pair if a["chain"] == "B"],
             "c1": [a for a in clus if a["chain"] == "A"],
             "c2": [a for a in clus if a["chain"] == "B"], "c3": third}
    order = {"cluster_first": ["c1", "c2", "c3", "p1", "p2"],
             "pair_first": ["p1", "p2", "c1", "c2", "c3"],
             "pair_around": ["p1", "c1", "c2", "c3", "p2"],
             "cluster_around": ["c1", "p1", "p2", "c2", "c3"]}[case["order"]]
    atoms = []
    seqs = {}
    for k, u in enumerate(order):
        for a in units[u]:
            a = build.BAtom(a)
            a["chain"] = "ABCDE"[k]
            a["res_seq"] = 1 + a["res_idx"] + 10 * k
            atoms.append(a)
        seqs[u] = (10 * k, 10 * k + 10)
    ff = case["ff"]
    opts = ["--nodebump", "--noopt", f"--ff={ff}"]
    r = pipeline.run(build.pdb_text(atoms), opts)
    if not r.ok:
        res["events"][f"run-failed:{ff}"] = 1
        return res
    cys = [x for x in r.bm.residues if isinstance(x, aa.CYS)]
    pp = [c for c in cys if seqs["p1"][0] < c.res_seq <= seqs["p1"][1]
          or seqs["p2"][0] < c.res_seq <= seqs["p2"][1]]
    tag = f"cluster/{case['order']}/hg={case['hg']}/{case['pos']}"
    viol = []
    if len(pp) != 2:
        viol.append((f"C13/{tag}/cys-count", {"n": len(pp)}))
    else:
        a, b = pp
        has = [x.has_atom("HG") for x in pp]
        mutual = (a.ss_bonded_partner is b.get_atom("SG")
                  and b.ss_bonded_partner is a.get_atom("SG"))
        if any(has) or not mutual or not (a.ss_bonded and b.ss_bonded):
            viol.append((f"C13/{tag}/clean-pair-not-bridged-symmetrically",
                         {"has_hg": has, "mutual": mutual, "d": dpair,
                          "flags": [a.ss_bonded, b.ss_bonded]}))
    res["nontrivial"] = [f"{tag}/{ff}"]
    res["events"][f"outcome:cluster:{case['order']}"] = 1
    for sig, detail in viol:
        res["violations"].append({"sig": sig, "detail": detail})
    return res


def run_double(case):
    """Two cysteine pairs in one structure (bridge detection must not stop
    after, or be disturbed by, another pair)."""
    from pdb2pqr import aa

    res = {"evals": 1, "violations": [], "events": {}, "nontrivial": []}
    atoms, info, ds = [], [], []
    for k, d in enumerate(case["ds"]):
        a, i, dd = build_pair({"d": d, "pos": case["pos"], "hg": "none",
                               "layout": "AB"})
        for at in a:
            at["xyz"] = at["xyz"] + np.array([0.0, 0.0, 40.0 * k])
            at["res_seq"] += 20 * k
            at["chain"] = "ABCD"[2 * k + (0 if at["chain"] == "A" else 1)]
        for inf in i:
            inf["res_seq"] += 20 * k
        atoms += a
        info += i
        ds.append(dd)
    ff = case["ff"]
    opts = list(case["opts"]) + [f"--ff={ff}"]
    r = pipeline.run(build.pdb_text(atoms), opts)
    if not r.ok:
        res["events"][f"run-failed:{ff}"] = 1
        return res
    cys = [x for x in r.bm.residues if isinstance(x, aa.CYS)]
    viol = []
    sides = ["below" if d < 2.5 else "above" for d in ds]
    tag = f"double:{'+'.join(sides)}/{case['pos']}"
    for k, side in enumerate(sides):
        pair = [c for c in cys if 20 * k < c.res_seq <= 20 * k + 20]
        if len(pair) != 2:
            viol.append((f"C13/{tag}/pair{k}/cys-count", {"n": len(pair)}))
            continue
        a, b = pair
        has = [x.has_atom("HG") for x in pair]
        mutual = (a.ss_bonded_partner is b.get_atom("SG")
                  and b.ss_bonded_partner is a.get_atom("SG"))
        if side == "below" and (any(has) or not mutual):
            viol.append((f"C13/{tag}/pair{k}/not-bridged-symmetrically",
                         {"has_hg": has, "mutual": mutual, "d": ds[k]}))
        if side == "above" and (not all(has) or a.ss_bonded or b.ss_bonded):
            viol.append((f"C13/{tag}/pair{k}/not-free", {"has_hg": has,
                                                         "d": ds[k]}))
    pv, _ev, _cells = c01.check_assignment(r, info, ff, opts)
    for sig, detail in pv:
        viol.append((sig.replace("C01/e2e", f"C13/{tag}/parameters", 1), detail))
    res["nontrivial"] = [f"{tag}/{ff}"]
    res["events"][f"outcome:{tag}"] = 1
    seen = set()
    for sig, detail in viol:
        if sig not in seen:
            seen.add(sig)
            res["violations"].append({"sig": sig, "detail": detail})
    return res


def run_case(case):
    from pdb2pqr import aa

    if case.get("mode") == "double":
        return run_double(case)
    if case.get("mode") == "cluster":
        return run_cluster(case)
    if case.get("mode") == "placement":
        return run_placement(case)
    res = {"evals": 1, "violations": [], "events": {}, "nontrivial": []}
    atoms, info, d = build_pair(case)
    if abs(d - 2.5) < 1e-9:
        res["evals"] = 0
        return res
    ff = case["ff"]
    opts = list(case["opts"]) + [f"--ff={ff}"]
    r = pipeline.run(pair_text(atoms, case["layout"]), opts)
    if not r.ok:
        res["events"][f"run-failed:{ff}"] = 1
        return res
    side = "below" if d < 2.5 else "above"
    tag = f"{side}/{case['layout']}/hg={case['hg']}/{case['pos']}"
    viol = []
    cys = [x for x in r.bm.residues if isinstance(x, aa.CYS)]
    if len(cys) != 2:
        viol.append((f"C13/{tag}/cys-count", {"n": len(cys)}))
    else:
        a, b = cys
        has = [x.has_atom("HG") for x in cys]
        partners = [x.ss_bonded_partner for x in cys]
        if side == "below":
            if any(has):
                which = "one" if has[0] != has[1] else "both"
                viol.append((f"C13/{tag}/thiol-hydrogen-kept-on-{which}",
                             {"d": d, "has_hg": has}))
            ok = (partners[0] is b.get_atom("SG")
                  and partners[1] is a.get_atom("SG"))
            if not ok:
                viol.append((f"C13/{tag}/partner-pointers-not-mutual",
                             {"d": d, "partners": [str(p) for p in partners]}))
            if not (a.ss_bonded and b.ss_bonded):
                viol.append((f"C13/{tag}/bridge-flag-asymmetric",
                             {"flags": [a.ss_bonded, b.ss_bonded]}))
        else:
            if not all(has):
                which = "one" if has[0] != has[1] else "both"
                viol.append((f"C13/{tag}/thiol-hydrogen-missing-on-{which}",
                             {"d": d, "has_hg": has}))
            if any(p is not None for p in partners) or a.ss_bonded or b.ss_bonded:
                viol.append((f"C13/{tag}/bridged-although-beyond-limit",
                             {"d": d}))
    # a cysteine the force field parameterises completely when free is
    # parameterised completely when bridged, at every chain position
    # ("receive bridged-cysteine parameters"): no atom of it unassigned
    missed = {id(x) for x in (r.missed or [])}
    for c in cys:
        lost = sorted(x.name for x in c.atoms if id(x) in missed)
        if lost:
            viol.append((f"C13/{side}/{ff}/{case['pos']}/"
                         "cysteine-not-fully-parameterised",
                         {"unassigned": lost, "ffname": c.ffname}))
    # parameters: bridged / thiol parameters per the reference resolver
    pv, _ev, _cells = c01.check_assignment(r, info, ff, opts)
    for sig, detail in pv:
        viol.append((sig.replace("C01/e2e", f"C13/{side}/parameters", 1),
                     detail))
    res["events"][f"outcome:{side}:{'bridged' if side == 'below' else 'free'}"] = 1
    res["nontrivial"] = [f"{tag}/{ff}/{'+'.join(case['opts'])}"]
    seen = set()
    for sig, detail in viol:
        if sig not in seen:
            seen.add(sig)
            res["violations"].append({"sig": sig, "detail": detail})
    return res


def enumerate_cases(tier, seed):
    ffs = ["AMBER", "PARSE", "CHARMM"]
    rest = [f for f in corpus.FFS if f not in ffs]
    if tier == "quick":
        ffs.append(rest[seed % len(rest)])
    else:
        ffs += rest
    cases = []
    for ff in ffs:
        for opts in ([], ["--nodebump", "--noopt"]):
            for layout in LAYOUTS:
                for hg in HG:
                    for pos in corpus.POSITIONS:
                        for d in DISTANCES:
                            cases.append({"ff": ff, "opts": opts,
                                          "layout": layout, "hg": hg,
                                          "pos": pos, "d": d})
    for d in ((2.04, 2.3, 2.45, 2.49, 2.51) if tier == "quick"
              else (1.9, 2.04, 2.2, 2.3, 2.4, 2.45, 2.49, 2.51, 2.6)):
        for rot in range(24):
            cases.append({"mode": "placement", "d": d, "rot": rot})
    for ff in ffs[:2]:
        for pos in corpus.POSITIONS:
            for order in ("cluster_first", "pair_first", "pair_around",
                          "cluster_around"):
                for hg in ("none", "both"):
                    cases.append({"mode": "cluster", "ff": ff, "pos": pos,
                                  "order": order, "hg": hg})
    for ff in ffs[:2]:
        for pos in corpus.POSITIONS:
            for d1 in (2.04, 2.49, 2.51, 3.0):
                for d2 in (2.04, 2.49, 2.51, 3.0):
                    cases.append({"mode": "double", "ff": ff, "pos": pos,
                                  "ds": [d1, d2],
                                  "opts": ["--nodebump", "--noopt"]})
    return cases
