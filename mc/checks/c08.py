"""C08 - the PQR file is a faithful, re-readable serialisation of the model.

Complete cross products of per-field alphabets are written through the real
formatter (Atom.get_pqr_string via io.print_biomolecule_atoms) and the real
writer (main.print_pqr, with and without --whitespace / --keep-chain) and read
back by an independent fixed-column parser, an independent whitespace
tokeniser and pdb2pqr's own io.read_pqr; every field must equal the model.
"""

import argparse
import itertools

from .. import build, engine, pipeline
from ..refs import pqr_ref

PROPERTY = "C08"
LEVEL = "model_checking"
RULE = (
    "blocks: (P) for every pair of adjacent columns the complete product of "
    "both fields' alphabets, all other fields at their defaults; (R) the "
    "complete product of reduced (3-value) alphabets over all fields; (S) "
    "real serial numbers through print_biomolecule_atoms on long atom lists; "
    "(E) end-to-end runs on built peptides with extreme numbering / offsets; "
    "each x {fixed, --whitespace} x {--keep-chain on/off}.  non-trivial = "
    "distinct written lines"
)
ASSUMPTIONS = [
    "the default layout is read by the PDB-compatible fixed columns that the "
    "PQR documentation says pdb2pqr preserves; the --whitespace layout by "
    "tokenisation per docs/source/formats/pqr.rst",
    "coordinates agree to 0.001 A (half a unit of the third decimal plus "
    "1e-9), charge and radius to 0.0001",
    "atom / residue names of 1-4 characters without blanks; serial numbers "
    "are those the writer assigns (position in the atom list)",
]
BOUND = {
    "quick": "P: all adjacent-field pairs (full alphabets); R: reduced "
    "product; S: serials up to 100001; E: end-to-end runs (8 numbering / offset structures x {AMBER --noopt --nodebump, --clean} x 4 layout option sets + a 10125-atom water box)",
    "thorough": "quick + complete product of the full coordinate alphabet "
    "on x,y,z, serials up to 1234567, E over all numbering x offset "
    "combinations",
}

FULL = {
    "record": ["ATOM", "HETATM"],
    "serial": [1, 9999, 99999, 100000, 1234567],
    "name": ["C", "CA", "HB2", "HH11", "O5'", "H5''", "1HB"],
    "res_name": ["U", "DA", "ALA", "NALA"],
    "chain": ["", "A", "1", "a"],
    "res_seq": [-999, -1, 0, 1, 9999, 10000, 12345, -1000],
    "icode": ["", "A"],
    "x": [0.0, -0.0004, -0.0007, 1.2345, -999.999, 9999.999, -1000.123, 10000.5,
          12345.678, 99999.0, -99999.0],
    "charge": [0.0, -1.2345, 12.3456, -0.00004, -0.0007, 0.0005, -0.0349],
    "radius": [0.0, 1.5, 12.3456, 0.0007],
}
REDUCED = {
    "record": ["ATOM", "HETATM"],
    "serial": [1, 99999, 100000],
    "name": ["C", "HB2", "HH11"],
    "res_name": ["U", "ALA", "NALA"],
    "chain": ["", "A", "1"],
    "res_seq": [-999, 1, 10000],
    "icode": ["", "A"],
    "x": [1.2345, -999.999, 10000.5],
    "y": [0.0, 9999.999, -1000.123],
    "z": [-0.0004, 12345.678, 99999.0],
    "charge": [0.0, -1.2345, 12.3456],
    "radius": [0.0, 1.5, 12.3456],
}
DEFAULT = {"record": "ATOM", "serial": 1, "name": "CA", "res_name": "ALA",
           "chain": "A", "res_seq": 1, "icode": "", "x": 1.2345, "y": -2.5,
           "z": 3.75, "charge": -0.25, "radius": 1.5}
ORDER = ["record", "serial", "name", "res_name", "chain", "res_seq", "icode",
         "x", "y", "z", "charge", "radius"]


def alphabet(field, which=FULL):
    if field in ("y", "z") and field not in which:
        return which["x"]
    return which[field]


def value_class(field, v):
    if field == "serial":
        return ">=100000" if v >= 100000 else "<100000"
    if field == "res_seq":
        return ">=10000" if v >= 10000 else "<=-1000" if v <= -1000 else "4-columns"
    if field in ("x", "y", "z"):
        return (">=10000" if v >= 9999.9995 else "<=-1000" if v <= -999.9995
                else "8-columns")
    if field in ("name", "res_name"):
        return f"len{len(v)}"
    if field == "icode":
        return "present" if v else "absent"
    if field == "chain":
        return "present" if v else "blank"
    if field in ("charge", "radius"):
        return ">=10" if abs(v) >= 10 else "<10"
    return str(v)


def make_atom(rec):
    from pdb2pqr import structures

    a = structures.Atom(type_=rec["record"])
    a.serial = rec["serial"]
    a.name = rec["name"]
    a.res_name = rec["res_name"]
    a.chain_id = rec["chain"]
    a.res_seq = rec["res_seq"]
    a.ins_code = rec["icode"]
    a.x, a.y, a.z = rec["x"], rec["y"], rec["z"]
    a.ffcharge = rec["charge"]
    a.radius = rec["radius"]
    a.alt_loc = ""
    a.occupancy = 1.0
    a.temp_factor = 0.0
    a.seg_id = ""
    a.element = "C"
    a.charge = ""
    return a


def _truncated(field, want):
    """What the documented fixed-width truncation makes of a value."""
    try:
        if field == "serial":
            return int(str(want)[:5])
        if field == "res_seq":
            return int(str(want)[:4])
        if field in ("x", "y", "z"):
            return float(f"{want:8.3f}"[:8])
    except ValueError:
        return None
    return None


def compare(rec, got, keep_chain, layout, viol, tag):
    """Every differing field -> one signature (field, magnitude class, kind
    of difference).  A value that is exactly the field-width truncation of
    the model value is told apart from any other corruption, so that the
    known truncation classes do not hide a different defect on the same
    inputs."""
    ok_all = True
    for f in ORDER:
        want = rec[f]
        if f == "chain":
            want = rec["chain"] if keep_chain else ""
            g = got.get("chain", "")
            if g != want:
                viol.append((f"C08/{layout}/{tag}/chain/{value_class(f, rec[f])}"
                             f"/keep_chain={keep_chain}",
                             {"want": want, "got": g, "model": rec}))
                ok_all = False
            continue
        g = got.get(f)
        if f in ("x", "y", "z"):
            ok = g is not None and abs(g - want) <= 0.0005 + 1e-9
        elif f in ("charge", "radius"):
            ok = g is not None and abs(g - want) <= 0.00005 + 1e-9
        else:
            ok = g == want
        if ok:
            continue
        ok_all = False
        cls = value_class(f, rec[f])
        t = _truncated(f, want)
        overflow = cls.startswith((">=", "<="))
        if overflow and t is not None and g is not None and (
                g == t or (isinstance(t, float) and abs(g - t) < 1e-9)):
            sig = f"C08/{layout}/{tag}/{f}/{cls}"  # documented truncation
        else:
            sig = f"C08/{layout}/{tag}/{f}/{cls}/corrupted"
        viol.append((sig, {"want": want, "got": g, "model": rec}))
    return ok_all


def check_line(rec, line, whitespace, keep_chain, viol, events):
    layout = "whitespace" if whitespace else "fixed"
    # independent parser
    try:
        if whitespace:
            got = pqr_ref.parse_ws_line(line, keep_chain)
        else:
            got = pqr_ref.parse_fixed_line(line)
    except Exception as exc:
        cls = first_overflow(rec, whitespace)
        viol.append((f"C08/{layout}/reference-parser/unparsable:"
                     f"{type(exc).__name__}/{cls}",
                     {"line": line, "model": rec, "error": str(exc)[:100]}))
        got = None
    if got is not None:
        compare(rec, got, keep_chain, layout, viol, "reference-parser")
    if whitespace:
        from pdb2pqr import io as pio
        import io as _io

        try:
            atoms = pio.read_pqr(_io.StringIO(line + "\n"))
            a = atoms[0]
            got2 = {"record": a.type, "serial": a.serial, "name": a.name,
                    "res_name": a.res_name, "chain": a.chain_id or "",
                    "res_seq": a.res_seq, "icode": a.ins_code or "",
                    "x": a.x, "y": a.y, "z": a.z, "charge": a.charge,
                    "radius": a.radius}
            compare(rec, got2, keep_chain, layout, viol, "own-reader")
        except Exception as exc:
            cls = first_overflow(rec, whitespace)
            viol.append((f"C08/{layout}/own-reader/raises:"
                         f"{type(exc).__name__}/{cls}",
                         {"line": line, "model": rec, "error": str(exc)[:100]}))


def first_overflow(rec, whitespace):
    """Class of the model for signatures of unparsable lines."""
    parts = []
    for f in ("serial", "res_seq", "x", "y", "z"):
        c = value_class(f, rec[f])
        if c.startswith((">=", "<=")):
            parts.append(f"{f}{c}")
    if rec["icode"]:
        parts.append("icode")
    return "+".join(parts) or "in-range"


def write_and_check(recs, whitespace, keep_chain, res, use_list_serials=False):
    """Write records through the real formatter and writer, read back."""
    from pdb2pqr import io as pio
    from pdb2pqr import main

    viol = []
    atoms = [make_atom(r) for r in recs]
    if use_list_serials:
        lines = pio.print_biomolecule_atoms(atoms, keep_chain)
        for r, a in zip(recs, atoms):
            r["serial"] = a.serial
    else:
        lines = [f"{a.get_pqr_string(chainflag=keep_chain)}\n" for a in atoms]
        lines.append("TER\nEND")
    out = engine.scratch_dir() / "c08.pqr"
    args = argparse.Namespace(output_pqr=str(out), whitespace=whitespace)
    main.print_pqr(args, lines, "", None, False)
    text = out.read_text().splitlines()
    alines = [l for l in text if l.startswith(("ATOM", "HETATM"))]
    if len(alines) != len(recs):
        viol.append((f"C08/{'whitespace' if whitespace else 'fixed'}/"
                     "line-count", {"lines": len(alines), "atoms": len(recs)}))
    else:
        for r, line in zip(recs, alines):
            check_line(r, line, whitespace, keep_chain, viol, res["events"])
            res["nontrivial_set"].add(line)
    res["evals"] += len(recs)
    for sig, detail in viol:
        if sig not in res["seen"]:
            res["seen"].add(sig)
            res["violations"].append({
                "sig": sig, "detail": detail,
                "case": {"mode": "one", "rec": detail.get("model"),
                         "whitespace": whitespace, "keep_chain": keep_chain}})
        k = "violating-lines"
        res["events"][k] = res["events"].get(k, 0) + 1


def run_case(case):
    res = {"evals": 0, "violations": [], "events": {}, "nontrivial": [],
           "seen": set(), "nontrivial_set": set()}
    mode = case["mode"]
    flags = [(w, k) for w in (False, True) for k in (False, True)]
    if mode == "one":
        if case["rec"] is not None:
            write_and_check([dict(case["rec"])], case["whitespace"],
                            case["keep_chain"], res)
    elif mode == "pair":
        f1, f2 = case["fields"]
        recs = []
        for v1 in alphabet(f1):
            for v2 in alphabet(f2):
                r = dict(DEFAULT)
                r[f1], r[f2] = v1, v2
                recs.append(r)
        for w, k in flags:
            write_and_check([dict(r) for r in recs], w, k, res)
    elif mode == "reduced":
        fixed = case["fixed"]  # values of the first three fields
        rest = [f for f in ORDER if f not in fixed]
        recs = []
        for combo in itertools.product(*[REDUCED[f] for f in rest]):
            r = dict(fixed)
            r.update(dict(zip(rest, combo)))
            recs.append(r)
        for w, k in flags:
            write_and_check([dict(r) for r in recs], w, k, res)
    elif mode == "coords":
        recs = []
        for x, y, z in itertools.product(FULL["x"], repeat=3):
            r = dict(DEFAULT)
            r.update({"x": x, "y": y, "z": z, "res_seq": case["res_seq"],
                      "icode": case["icode"]})
            recs.append(r)
        for w, k in flags:
            write_and_check([dict(r) for r in recs], w, k, res)
    elif mode == "serials":
        n = case["n"]
        base = dict(DEFAULT)
        filler = make_atom(base)
        recs_at = {}
        for s in case["serials"]:
            for name in ("C", "HH11"):
                pass
        # long list: the same filler object everywhere except probes
        from pdb2pqr import io as pio
        from pdb2pqr import main

        probes = {}
        for s in case["serials"]:
            r = dict(DEFAULT)
            r["name"] = "HH11" if s % 2 else "C"
            # hetero records too: the record name abuts a five-digit serial
            if s in (2, 10000, 99999, 100001, 1000000):
                r["record"] = "HETATM"
            probes[s] = r
        atoms = []
        recs = []
        for i in range(1, n + 1):
            if i in probes:
                atoms.append(make_atom(probes[i]))
            else:
                atoms.append(filler)
        for w, k in flags:
            lines = pio.print_biomolecule_atoms(atoms, k)
            out = engine.scratch_dir() / "c08s.pqr"
            args = argparse.Namespace(output_pqr=str(out), whitespace=w)
            main.print_pqr(args, lines, "", None, False)
            viol = []
            with open(out) as fh:
                idx = 0
                for line in fh:
                    if not line.startswith(("ATOM", "HETATM")):
                        continue
                    idx += 1
                    if idx in probes:
                        r = dict(probes[idx])
                        r["serial"] = idx
                        check_line(r, line.rstrip("\n"), w, k, viol,
                                   res["events"])
                        res["evals"] += 1
                        res["nontrivial_set"].add(line)
            if idx != n:
                viol.append(("C08/serials/line-count", {"lines": idx, "n": n}))
            for sig, detail in viol:
                if sig not in res["seen"]:
                    res["seen"].add(sig)
                    res["violations"].append({
                        "sig": sig, "detail": detail,
                        "case": {"mode": "one", "rec": detail.get("model"),
                                 "whitespace": w, "keep_chain": k}})
    elif mode == "e2e":
        run_e2e(case, res)
    else:
        raise ValueError(mode)
    res["nontrivial"] = [str(hash(l)) for l in res.pop("nontrivial_set")]
    res.pop("seen")
    return res


def water_box(n_side):
    """n_side^3 complete waters (3 atoms each): more than 9999 atom records
    end to end (hetero records whose name abuts a five-digit serial)."""
    import numpy as np

    from ..refs import templates as T

    wat = T.load()[0]["WAT"]
    o = np.array(wat.atoms["O"].xyz)
    atoms = []
    n = 0
    for i in range(n_side):
        for j in range(n_side):
            for k in range(n_side):
                n += 1
                xyz = np.array([i * 3.1, j * 3.1, k * 3.1])
                seq = (n - 1) % 9999 + 1
                chain = "WXYZ"[(n - 1) // 9999]
                atoms.append(build.water(xyz, seq, chain=chain))
                for hn in ("H1", "H2"):
                    atoms.append(build.water(
                        np.array(wat.atoms[hn].xyz) - o + xyz, seq,
                        chain=chain, name=hn))
    return atoms


def run_e2e(case, res):
    """Built peptide with extreme numbering / offsets through main_driver."""
    if case.get("box"):
        atoms = water_box(case["box"])
        base_opts = ["--ff=AMBER", "--assign-only"]
    else:
        numbers = case["numbers"]
        icodes = case.get("icodes")
        atoms = build.build_peptide(["ALA", "SER", "GLY"], numbers=numbers,
                                    icodes=icodes, origin=case["origin"])
        base_opts = ["--ff=AMBER", "--noopt", "--nodebump"]
    text = build.pdb_text(atoms)
    input_name = "in.pdb"
    if case.get("cif"):
        # the same structure as an mmCIF entry (the writer marks the end of
        # such an output with a "#" line)
        from . import c10

        text = c10.cif_text([atoms], 0)
        input_name = "in.cif"
    # the --clean short cut writes its records from a branch of its own
    bases = [base_opts] if case.get("box") else [base_opts, ["--clean"]]
    for base_opts, w, k in [(b, w, k) for b in bases for w in (False, True)
                            for k in (False, True)]:
        if True:
            opts = list(base_opts)
            if w:
                opts.append("--whitespace")
            if k:
                opts.append("--keep-chain")
            r = pipeline.run(text, opts, input_name=input_name)
            res["evals"] += 1
            if not r.ok:
                cls = case["label"]
                res["events"][f"e2e-run-failed:{cls}"] = 1
                continue
            # the whole file through pdb2pqr's own reader (what dx2cube
            # does): every record, nothing else, no exception
            import io as _io

            from pdb2pqr import io as pio

            n_model = len([a for a in r.bm.atoms
                           if id(a) not in {id(m) for m in (r.missed or [])}])
            src = "cif" if case.get("cif") else "pdb"
            lay = "whitespace" if w else "fixed"
            try:
                back = pio.read_pqr(_io.StringIO(r.pqr_text))
            except Exception as exc:  # noqa: BLE001 - reported
                back = None
                sig = f"C08/e2e/own-reader-raises/{src}-input/{lay}"
                if case["label"] not in ("plain", "icode"):
                    sig += f"/{case['label']}"
                if sig not in res["seen"]:
                    res["seen"].add(sig)
                    res["violations"].append({
                        "sig": sig, "detail": {"error": str(exc)[:120],
                                               "opts": opts}})
            if back is not None and len(back) != n_model:
                sig = f"C08/e2e/own-reader-atom-count/{src}-input/{lay}"
                if sig not in res["seen"]:
                    res["seen"].add(sig)
                    res["violations"].append({
                        "sig": sig, "detail": {"read": len(back),
                                               "model": n_model,
                                               "opts": opts}})
            res["events"][f"own-reader-whole-file:{src}:{lay}"] = 1
            missed = {id(a) for a in (r.missed or [])}
            model = [a for a in r.bm.atoms if id(a) not in missed]
            lines = [l for l in r.pqr_text.splitlines()
                     if l.startswith(("ATOM", "HETATM"))]
            viol = []
            if len(lines) != len(model):
                viol.append((f"C08/e2e/line-count/{case['label']}", {}))
            else:
                for a, line in zip(model, lines):
                    rec = {"record": a.type, "serial": a.serial,
                           "name": a.name, "res_name": a.res_name,
                           "chain": a.chain_id, "res_seq": a.res_seq,
                           "icode": a.ins_code, "x": a.x, "y": a.y, "z": a.z,
                           "charge": a.ffcharge or 0.0,
                           "radius": a.radius or 0.0}
                    check_line(rec, line, w, k, viol, res["events"])
                    res["nontrivial_set"].add(line)
            for sig, detail in viol:
                sig = sig.replace("C08/", "C08/e2e:", 1) \
                    if not sig.startswith("C08/e2e") else sig
                if sig not in res["seen"]:
                    res["seen"].add(sig)
                    res["violations"].append({"sig": sig, "detail": detail})


def enumerate_cases(tier, seed):
    cases = []
    for i in range(len(ORDER) - 1):
        cases.append({"mode": "pair", "fields": [ORDER[i], ORDER[i + 1]]})
    # non-adjacent pairs that share the re-spacing cut points of --whitespace
    for f1, f2 in (("serial", "res_seq"), ("res_seq", "x"), ("icode", "y"),
                   ("name", "chain"), ("res_name", "res_seq"), ("x", "z"),
                   ("z", "radius"), ("serial", "icode"), ("chain", "icode")):
        cases.append({"mode": "pair", "fields": [f1, f2]})
    for rec in REDUCED["record"]:
        for serial in REDUCED["serial"]:
            for name in REDUCED["name"]:
                cases.append({"mode": "reduced",
                              "fixed": {"record": rec, "serial": serial,
                                        "name": name}})
    cases.append({"mode": "serials", "n": 100001,
                  "serials": [1, 2, 9999, 10000, 99999, 100000, 100001]})
    if tier == "thorough":
        for rs in FULL["res_seq"]:
            for ic in FULL["icode"]:
                cases.append({"mode": "coords", "res_seq": rs, "icode": ic})
        cases.append({"mode": "serials", "n": 1234567,
                      "serials": [99999, 100000, 999999, 1000000, 1234567]})
    e2e = [
        ("plain", [1, 2, 3], None, (0.0, 0.0, 0.0)),
        ("negative-numbers", [-3, -2, -1], None, (0.0, 0.0, 0.0)),
        ("res_seq<=-1000", [-1001, -1000, -999], None, (0.0, 0.0, 0.0)),
        ("res_seq-9999", [9997, 9998, 9999], None, (0.0, 0.0, 0.0)),
        ("icode", [10, 10, 10], ["", "A", "B"], (0.0, 0.0, 0.0)),
        ("offset-900", [1, 2, 3], None, (900.0, -900.0, 900.0)),
        ("offset-9990", [1, 2, 3], None, (9990.0, 0.0, -990.0)),
        ("icode+negative", [-5, -5, -4], ["", "A", ""], (0.0, 0.0, 0.0)),
    ]
    for label, numbers, icodes, origin in e2e:
        cases.append({"mode": "e2e", "label": label, "numbers": numbers,
                      "icodes": icodes, "origin": list(origin)})
    cases.append({"mode": "e2e", "label": "water-box-10125-atoms", "box": 15})
    for label, numbers, icodes, origin in e2e[:1] + e2e[4:5]:
        cases.append({"mode": "e2e", "label": label, "numbers": numbers,
                      "icodes": icodes, "origin": list(origin), "cif": True})
    return cases
