"""C14 - neighbour search returns every atom within range.

(1) per-axis exhaustive key check on the real Cells.add_cell for cell sizes 2
    and 5 over a boundary lattice (quarter-integers, boundary +-1e-9, -0.0,
    +-1e4 offsets): any two coordinates closer than the cell size land in
    equal or adjacent cells; plus a 3-axis composition block;
(2) explicit-state search of the real Cells object: 2 (thorough 3) atoms,
    positions on a 3-D boundary lattice, operations {add, remove, move by the
    remove->set->add protocol, query}; state = (position, registered) per
    atom; every state is built by two different real histories (direct and
    detour) whose concrete cell maps must agree, then every operation is
    applied and the query invariant checked on the successor;
(3) pipeline monitor: in corpus runs every get_near_cells call is compared
    with a brute-force scan over the live atoms, and after every optimiser /
    debump step the cell map is audited for stale and ghost entries.
"""

import itertools
import sys

from .. import build, corpus, engine, pipeline, s3
from ..refs import templates as T

PROPERTY = "C14"
LEVEL = "model_checking"
RULE = (
    "(1) all ordered coordinate pairs of the lattice closer than the cell "
    "size, per axis and size; (2) all abstract states (position index, "
    "registered flag per atom) x all operations, each state reached by two "
    "real histories; states/transitions are those of this search; (3) every "
    "neighbour query issued by the real pipeline on the corpus runs. "
    "non-trivial = distinct abstract states in which at least two atoms are "
    "within range of each other + distinct pipeline runs with >=1 query"
)
ASSUMPTIONS = [
    "operations follow the cell list's protocol (an atom is removed before "
    "its coordinates change and re-added afterwards; no double add); "
    "violations of the protocol by the pipeline are what part (3) detects",
    "the abstraction (position, registered) is lossless: checked on every "
    "state by comparing the concrete cell map (non-empty cells) reached by "
    "two different histories and predicted from the abstract state",
    "positions are lattice points around cell boundaries, zero, negative "
    "values and +-1e4 offsets",
]
BOUND = {
    "quick": "(1) 2 sizes x all pairs of 203 coordinates + 3-axis block; (2) "
    "2 atoms x 36-point lattice x {2,5}: all states x all operations; (3) "
    "bare S3 cases (AMBER, default/noopt), water probes for polar hosts, "
    "partner pairs on the ideal slots of a hydroxyl (+ water), hydroxyl-"
    "hydroxyl partner poses, hydrogenated inputs through the pKa path, "
    "peptide + strand + waters + ion complexes, 1AJJ / 1BX8 / 1A1P / "
    "cterm_hid runs",
    "thorough": "(2) additionally 3 atoms x 12-point lattice; (3) additionally "
    "all clash and partner poses of the quick C04 corpus",
}


class FakeAtom:
    __slots__ = ("x", "y", "z", "cell", "name")

    def __init__(self, name, xyz=(0.0, 0.0, 0.0)):
        self.name = name
        self.x, self.y, self.z = xyz
        self.cell = None

    def __repr__(self):
        return f"{self.name}@({self.x},{self.y},{self.z})"


# ---------------------------------------------------------------------------
# (1) per-axis
# ---------------------------------------------------------------------------
def axis_values():
    vals = [k / 4.0 for k in range(-44, 45)]
    extra = []
    for b in (-10, -5, -4, -2, -1, 0, 1, 2, 4, 5, 10):
        extra += [b - 1e-9, b + 1e-9]
    extra += [-0.0]
    for off in (1e4, -1e4):
        for d in (0.0, 0.25, 1.0, 1.75, 2.0, 4.75, 5.0, -0.25, -1.0, -1.75,
                  -4.75, 1e-9, -1e-9):
            extra.append(off + d)
    out = []
    for v in vals + extra:
        if v not in out:
            out.append(v)
    return out


def run_axis(case):
    from pdb2pqr import cells

    size = case["size"]
    vals = axis_values()
    c = cells.Cells(size)
    key = {}
    for axis in range(3):
        for v in vals:
            a = FakeAtom("a")
            xyz = [0.3, 0.3, 0.3]
            xyz[axis] = v
            a.x, a.y, a.z = xyz
            c.add_cell(a)
            key[(axis, v)] = a.cell[axis]
    res = {"evals": 0, "violations": [], "events": {}, "nontrivial": []}
    for axis in range(3):
        for v in vals:
            k = key[(axis, v)]
            # the key is a multiple of size and the value lies within one
            # cell of it (cells may be closed on either side at boundaries)
            if k % size != 0:
                res["violations"].append({
                    "sig": f"C14/axis/key-not-multiple-of-size/size={size}",
                    "detail": {"value": v, "key": k}})
        for a, b in itertools.combinations(vals, 2):
            if abs(a - b) >= size:
                continue
            res["evals"] += 1
            ka, kb = key[(axis, a)], key[(axis, b)]
            if abs(ka - kb) > size:
                cls = "negative" if min(a, b) < 0 else "positive"
                res["violations"].append({
                    "sig": f"C14/axis/not-adjacent/size={size}/{cls}",
                    "detail": {"a": a, "b": b, "key_a": ka, "key_b": kb,
                               "axis": axis}})
    res["events"][f"axis-pairs:size={size}"] = res["evals"]
    res["nontrivial"] = [f"axis:{size}:{v}" for v in vals]
    # 3-axis composition: pairs differing on all axes at once
    pts = [-2.25, -2.0, -0.25, -0.0, 0.0, 1.75, 2.0, 4.75, 5.0]
    n = 0
    for p in itertools.product(pts, repeat=3):
        a = FakeAtom("a", p)
        c2 = cells.Cells(size)
        c2.add_cell(a)
        for d in itertools.product((-0.9, 0.0, 0.9), repeat=3):
            q = tuple(pi + di * size / 1.6 for pi, di in zip(p, d))
            dist = sum((pi - qi) ** 2 for pi, qi in zip(p, q)) ** 0.5
            if dist >= size or dist == 0:
                continue
            b = FakeAtom("b", q)
            c2.add_cell(b)
            n += 1
            if b not in c2.get_near_cells(a) or a not in c2.get_near_cells(b):
                res["violations"].append({
                    "sig": f"C14/compose/missed/size={size}",
                    "detail": {"a": p, "b": q}})
            c2.remove_cell(b)
    res["evals"] += n
    res["events"][f"compose-pairs:size={size}"] = n
    return res


# ---------------------------------------------------------------------------
# (2) explicit-state search on the real Cells
# ---------------------------------------------------------------------------
def lattice(kind):
    if kind == "l36":
        ax = [-2.0, -0.25, 1.75]
        pts = list(itertools.product(ax, ax, ax))
        pts += [(0.0, 0.0, 0.0), (-0.0, 5.0, -5.0), (2.0, 2.0, 2.0),
                (4.75, -4.75, 0.25), (1e4, -1e4, 0.25), (1e4 + 1.75, -1e4, 0.25),
                (-2.0 - 1e-9, -0.25, 1.75), (-5.0, -5.0, -5.0),
                (-4.75, -5.0, -3.5)]
        return pts
    if kind == "l12":
        return [(-2.0, -0.25, 1.75), (-0.25, -0.25, 1.75), (1.75, -0.25, 1.75),
                (-2.0, -2.0, -2.0), (0.0, 0.0, 0.0), (-0.0, 5.0, -5.0),
                (2.0, 2.0, 2.0), (4.75, -4.75, 0.25), (-5.0, -5.0, -5.0),
                (1e4, -1e4, 0.25), (1e4 + 1.75, -1e4, 0.25),
                (-2.0 - 1e-9, -0.25, 1.75)]
    raise ValueError(kind)


def concrete(cellsobj):
    return {k: sorted(a.name for a in v) for k, v in cellsobj.cellmap.items()
            if v}


def build_state(cellmod, size, pts, state, detour):
    """Reach abstract state by a real history.  state: tuple of (pi, reg)."""
    c = cellmod.Cells(size)
    atoms = []
    n = len(pts)
    for i, (pi, reg) in enumerate(state):
        a = FakeAtom(f"a{i}")
        atoms.append(a)
        if not detour:
            a.x, a.y, a.z = pts[pi]
            if reg:
                c.add_cell(a)
        else:
            # detour: register elsewhere, move twice, unregister, re-register
            q = pts[(pi + 7) % n]
            a.x, a.y, a.z = q
            c.add_cell(a)
            c.remove_cell(a)
            a.x, a.y, a.z = pts[(pi + 3) % n]
            c.add_cell(a)
            c.remove_cell(a)
            c.remove_cell(a)  # removing an unregistered atom is a no-op
            a.x, a.y, a.z = pts[pi]
            if reg:
                c.add_cell(a)
    return c, atoms


def check_queries(c, atoms, size, viol, tag):
    for a in atoms:
        near = c.get_near_cells(a)
        if a.cell is None:
            if near:
                viol.append((f"C14/bfs/{tag}/query-of-unregistered-atom-"
                             "returns-atoms", {}))
            continue
        if a in near:
            viol.append((f"C14/bfs/{tag}/query-returns-self", {}))
        if len(set(map(id, near))) != len(near):
            viol.append((f"C14/bfs/{tag}/duplicates-in-result", {}))
        for b in atoms:
            if b is a:
                continue
            d = ((a.x - b.x) ** 2 + (a.y - b.y) ** 2 + (a.z - b.z) ** 2) ** 0.5
            if b.cell is None:
                if b in near:
                    viol.append((f"C14/bfs/{tag}/unregistered-atom-returned",
                                 {}))
            elif d < size and b not in near:
                viol.append((f"C14/bfs/{tag}/missed-neighbour",
                             {"a": repr(a), "b": repr(b), "dist": d}))


def run_bfs(case):
    from pdb2pqr import cells as cellmod

    size = case["size"]
    pts = lattice(case["lattice"])
    natoms = case["atoms"]
    first = case["first"]  # (pi, reg) of atom 0: partitions the state space
    res = {"evals": 0, "violations": [], "events": {}, "nontrivial": [],
           "states": 0, "transitions": 0}
    viol = []
    per_atom = [(pi, reg) for pi in range(len(pts)) for reg in (0, 1)]
    for rest in itertools.product(per_atom, repeat=natoms - 1):
        state = (tuple(first),) + rest
        res["states"] += 1
        c1, atoms1 = build_state(cellmod, size, pts, state, False)
        c2, atoms2 = build_state(cellmod, size, pts, state, True)
        if concrete(c1) != concrete(c2):
            viol.append(("C14/bfs/history-dependent-cell-map",
                         {"state": state, "direct": str(concrete(c1)),
                          "detour": str(concrete(c2))}))
        check_queries(c1, atoms1, size, viol, "state")
        check_queries(c2, atoms2, size, viol, "state-detour")
        close = False
        for i in range(natoms):
            for j in range(i + 1, natoms):
                if state[i][1] and state[j][1]:
                    p, q = pts[state[i][0]], pts[state[j][0]]
                    if sum((u - v) ** 2 for u, v in zip(p, q)) ** 0.5 < size:
                        close = True
        if close:
            res["nontrivial"].append(f"{size}:{case['lattice']}:{state}")
        # successors: every operation on every atom, from the detour-built
        # object (non-initial concrete state)
        for i in range(natoms):
            ops = [("add",), ("remove",)] + [("move", pj)
                                             for pj in range(len(pts))]
            for op in ops:
                if op[0] == "add" and state[i][1]:
                    continue  # double add is outside the protocol
                c, atoms = build_state(cellmod, size, pts, state, True)
                a = atoms[i]
                if op[0] == "add":
                    c.add_cell(a)
                elif op[0] == "remove":
                    c.remove_cell(a)
                else:
                    was = a.cell is not None
                    c.remove_cell(a)
                    a.x, a.y, a.z = pts[op[1]]
                    if was:
                        c.add_cell(a)
                res["transitions"] += 1
                check_queries(c, atoms, size, viol, f"after-{op[0]}")
                # predicted concrete map from the abstract successor
                exp = {}
                for b in atoms:
                    if b.cell is not None:
                        exp.setdefault(b.cell, []).append(b.name)
                if {k: sorted(v) for k, v in exp.items()} != concrete(c):
                    viol.append((f"C14/bfs/after-{op[0]}/cell-map-differs-"
                                 "from-atom-keys", {"state": state, "op": op}))
    res["evals"] = res["transitions"]
    seen = set()
    for sig, detail in viol:
        if sig not in seen:
            seen.add(sig)
            res["violations"].append({"sig": sig, "detail": detail})
    res["events"][f"bfs:size={size}:{case['lattice']}:atoms={natoms}"] = \
        res["states"]
    return res


# ---------------------------------------------------------------------------
# (3) pipeline monitor
# ---------------------------------------------------------------------------
def cell_key(size, x, y, z):
    """Reference key: the cell list's documented arithmetic re-stated."""
    out = []
    for v in (x, y, z):
        if v < 0:
            out.append((int(v) - 1) // size * size)
        else:
            out.append(int(v) // size * size)
    return tuple(out)


def _outside(a, size):
    """How far the atom lies outside the cell it is registered in (0 if
    inside).  A full-turn rotation returns an atom to within rounding error of
    where it was registered; only a real displacement counts as stale."""
    d = 0.0
    for v, k in zip((a.x, a.y, a.z), a.cell):
        if v < k:
            d = max(d, k - v)
        elif v > k + size:
            d = max(d, v - (k + size))
    return d


def run_pipeline(case):
    from pdb2pqr import cells as cellmod
    from pdb2pqr import debump
    from pdb2pqr.hydrogens import structures as hs

    res = {"evals": 1, "violations": [], "events": {}, "nontrivial": None}
    if case.get("file"):
        text = (engine.REPO / "tests/data" / case["file"]).read_text()
        opts = [f"--ff={case['ff']}"] + list(case.get("opts", []))
    elif case.get("kind") == "complex":
        # peptide + nucleic strand + waters on the strand + an ion: every
        # residue class is a neighbour of an optimisable group
        import numpy as np

        atoms = build.build_peptide(["ALA", "SER", "ALA"])
        strand = build.build_strand(case["seq"], chain="N", start=101,
                                    origin=(0.0, 22.0, 0.0))
        atoms += strand
        n = 201
        for rs, nm in ((102, "O4'"), (101, "N3"), (103, "O2P"), (102, "N1")):
            t = next((a for a in strand if a["res_seq"] == rs
                      and a["name"] == nm), None)
            if t is None:
                continue
            for di in case["dirs"]:
                xyz = t["xyz"] + 2.8 * build.DIRECTIONS14[di]
                if min(build.dist(xyz, a["xyz"]) for a in atoms) < 2.4:
                    continue
                atoms.append(build.water(xyz, n))
                n += 1
        og = next(a for a in atoms if a["name"] == "OG")
        atoms.append(build.BAtom(
            name="ZN", res_name="ZN", chain="A", res_seq=300, icode="",
            xyz=og["xyz"] + np.array([0.0, 0.0, 3.4]), record="HETATM",
            res_idx=-1))
        text = build.pdb_text(atoms)
        opts = [f"--ff={case['ff']}"] + list(case.get("opts", []))
    else:
        built = s3.build_case(case)
        if built is None:
            res["evals"] = 0
            res["events"]["pose-rejected"] = 1
            return res
        text, _info, _atoms = built
        opts = list(s3.OPTION_SETS[case["opt"]]) + [f"--ff={case['ff']}"]
    titrate = bool(case.get("titrate"))
    if titrate:
        # the pKa path strips and rebuilds the hydrogens between the two
        # debumping passes (no pKa row: every group keeps its state)
        opts += ["--titration-state-method=propka", "--with-ph=7"]
    viol = []
    owner = {}  # id(Cells) -> biomolecule
    counts = {"queries": 0, "missed": 0}
    known_stale = set()
    known_ghost = set()

    def after_assign(tok, args, kw, result):
        owner[id(args[0])] = args[1]

    def live_atoms(c):
        bm = owner.get(id(c))
        if bm is None:
            return None
        return bm.atoms

    def after_query(tok, args, kw, result):
        c, atom = args[0], args[1]
        live = live_atoms(c)
        if live is None:
            return
        counts["queries"] += 1
        size = c.cellsize
        caller = sys._getframe(2).f_code.co_name
        got = {id(b) for b in result}
        liveids = {id(b) for b in live}
        for b in live:
            if b is atom:
                continue
            d = ((atom.x - b.x) ** 2 + (atom.y - b.y) ** 2
                 + (atom.z - b.z) ** 2) ** 0.5
            if d < size and id(b) not in got:
                counts["missed"] += 1
                if atom.cell is None:
                    why = "query-atom-not-filed"
                elif b.cell is None:
                    why = "neighbour-not-filed"
                else:
                    stale_q = (
                        atom.cell != cell_key(size, atom.x, atom.y, atom.z)
                        and _outside(atom, size) > 1e-6)
                    stale_b = (b.cell != cell_key(size, b.x, b.y, b.z)
                               and _outside(b, size) > 1e-6)
                    why = ("query-atom-stale" if stale_q else
                           "neighbour-stale" if stale_b else "cell-arithmetic")
                viol.append((f"C14/pipeline/missed-neighbour/{why}/"
                             f"caller={caller}",
                             {"atom": f"{atom.residue} {atom.name}",
                              "neighbour": f"{b.residue} {b.name}",
                              "dist": round(d, 3), "size": size}))
        for b in result:
            if id(b) not in liveids:
                viol.append((f"C14/pipeline/ghost-atom-returned/"
                             f"caller={caller}/{b.name[:2]}",
                             {"ghost": f"{b.residue} {b.name}"}))

    def audit(label):
        def after(tok, args, kw, result):
            self_ = args[0]
            c = getattr(self_, "cells", None)
            if c is None:
                c = getattr(getattr(self_, "routines", None), "cells", None)
            if not isinstance(c, cellmod.Cells):
                return
            live = live_atoms(c)
            if live is None:
                return
            size = c.cellsize
            liveids = {id(a) for a in live}
            for a in live:
                if a.cell is None:
                    continue
                if a.cell != cell_key(size, a.x, a.y, a.z) \
                        and _outside(a, size) > 1e-6 \
                        and id(a) not in known_stale:
                    known_stale.add(id(a))
                    viol.append((f"C14/pipeline/stale-cell-entry/after="
                                 f"{label}", {"atom": f"{a.residue} {a.name}"}))
            for k, lst in c.cellmap.items():
                for a in lst:
                    if id(a) not in liveids and id(a) not in known_ghost:
                        known_ghost.add(id(a))
                        viol.append((f"C14/pipeline/ghost-cell-entry/after="
                                     f"{label}/{a.name[:2]}",
                                     {"atom": f"{a.residue} {a.name}"}))
        return {"after": after}

    specs = [(cellmod.Cells, "assign_cells", {"after": after_assign}),
             (cellmod.Cells, "get_near_cells", {"after": after_query}),
             (debump.Debump, "debump_biomolecule", audit("Debump.debump_biomolecule"))]
    for cname in ("Flip", "Alcoholic", "Water", "Carboxylic", "Generic"):
        cls = getattr(hs, cname)
        for meth in ("__init__", "try_both", "try_donor", "try_acceptor",
                     "finalize", "complete", "fix_flip", "fix", "rename"):
            if meth in cls.__dict__:
                specs.append((cls, meth, audit(f"{cname}.{meth}")))
    import contextlib

    with pipeline.monitors(specs), (
            pipeline.inject_pka([]) if titrate else contextlib.nullcontext()):
        r = pipeline.run(text, opts)
    ev = res["events"]
    if not r.ok:
        ev[f"run-failed:{r.exc[0]}"] = 1
        return res
    ev["runs-ok"] = 1
    ev["neighbour-queries-checked"] = counts["queries"]
    if counts["queries"]:
        res["nontrivial"] = engine._h(case)
    seen = set()
    for sig, detail in viol:
        if sig not in seen:
            seen.add(sig)
            res["violations"].append({"sig": sig, "detail": detail})
    return res


def run_case(case):
    mode = case["mode"]
    if mode == "axis":
        return run_axis(case)
    if mode == "bfs":
        return run_bfs(case)
    return run_pipeline(case)


def enumerate_cases(tier, seed):
    cases = [{"mode": "axis", "size": s} for s in (2, 5)]
    for size in (2, 5):
        pts = lattice("l36")
        for pi in range(len(pts)):
            for reg in (0, 1):
                cases.append({"mode": "bfs", "size": size, "lattice": "l36",
                              "atoms": 2, "first": [pi, reg]})
    if tier == "thorough":
        for size in (2, 5):
            pts = lattice("l12")
            for pi in range(len(pts)):
                for reg in (0, 1):
                    cases.append({"mode": "bfs", "size": size,
                                  "lattice": "l12", "atoms": 3,
                                  "first": [pi, reg]})
    pipe = []
    for d in s3.bare_cases(["AMBER"], ["default", "noopt"]):
        pipe.append(d)
    polar_hosts = [n for n in corpus.INPUT_NAMES if T.base_of(n) in s3.POLAR]
    pipe += s3.water_cases("AMBER", names=polar_hosts)
    pipe += s3.two_water_cases("AMBER", names=["SER", "HIS", "ASN", "TYR",
                                               "ASH", "LYS"])
    pipe += s3.tetra_partner_cases("AMBER")
    # two hydroxyl groups facing each other (donor placed, acceptor refuses:
    # the undo paths of try_both)
    pipe += s3.partner_cases("AMBER", ["SER", "THR", "TYR"],
                             hosts=["SER", "THR", "TYR"],
                             rots=range(0, 24, 2))
    # fully hydrogenated inputs through the pKa path
    for d in s3.bare_cases(["PARSE"], ["default"]):
        d = dict(d)
        d["hydrogens"] = True
        d["titrate"] = True
        pipe.append(d)
    if tier == "thorough":
        pipe += s3.clash_cases("AMBER")
        pipe += s3.partner_cases("AMBER", s3.PARTNERS[:6],
                                 hosts=["ASN", "GLN", "HIS", "SER", "ASP",
                                        "TYR"], dirs=range(0, 14, 2))
    # spatial neighbourhoods of every residue of the bundled structures
    pipe += s3.hood_cases("AMBER", ["1AJJ.pdb", "1BX8.pdb", "cterm_hid.pdb"]
                          if tier == "quick" else None)
    for d in pipe:
        d = dict(d)
        d["mode"] = "pipeline"
        cases.append(d)
    for seq in (["DA", "DT", "DG"], ["RG", "RU", "RC"]):
        for dirs in ([0], [3], [6, 9], [1, 12]):
            for opts in ([], ["--noopt"]):
                cases.append({"mode": "pipeline", "kind": "complex",
                              "seq": seq, "dirs": dirs, "ff": "AMBER",
                              "opts": opts})
    for f in ("1AJJ.pdb", "1BX8.pdb", "1A1P.pdb", "cterm_hid.pdb"):
        for opts in ([], ["--noopt"]):
            cases.append({"mode": "pipeline", "file": f, "ff": "AMBER",
                          "opts": opts})
    return cases
