"""C16 - MOL2 ligand parameters: charge conservation, independence of atom
names and atom order, documented radii; in a complex the ligand's parameters
go to the ligand's atoms only and each ligand atom is written exactly once.

Part (a) drives the real reader and parameteriser
(pdb2pqr.ligand.mol2.Mol2Molecule.read / assign_parameters ->
peoe.equilibrate) on MOL2 text produced by the harness' own writer for

  * every connected, valence-feasible molecule of <= 3 (thorough <= 4) heavy
    atoms over the 22 supported Sybyl types and bond types {1, 2, 3, ar},
    hydrogens filled in explicitly (thorough: every cyclic skeleton too),
  * exhaustive five-/six-membered ring families (saturated, aromatic,
    Kekule, mono-substituted aromatic),
  * the MOL2 files bundled with the project's tests,

each in every atom order of the order alphabet (all permutations up to 6
atoms, else all rotations, the reversal and all adjacent transpositions),
three bond-record layouts on the identity order, and three naming schemes.

Part (b) runs the whole program (--ligand=<mol2>) on ALA-SER-ALA + the
ligand as HETATM residue LIG + every subset of {water O, water O/H1/H2,
foreign hetero group XYZ re-using ligand atom names, foreign group XYQ with
one shared and one private name, ZN ion} under three ligand naming schemes,
against a reference run of the same structure without the ligand.

Oracles (tolerances fixed a priori)
  conservation   |sum q - sum formal| <= 1e-9 (double precision sums of <= 100
                 terms of magnitude <= 2; the code never rounds charges).
                 "formal" is evaluated twice: with the harness' own reading
                 of the Sybyl types (octet rule on explicit bonds) and with
                 the implementation's formal_charge attribute, so that
                 "equilibration leaks charge" and "formal-charge model
                 differs" are distinct signatures.
  names          same order, different names: every charge/radius within 1e-9
  order          per-atom charges equal within 1e-9 up to an automorphism of
                 the typed, bond-labelled graph (backtracking search)
  radius         ZAP9[type] -> ZAP9[element] -> Bondi[type] -> Bondi[element]
                 as documented in pdb2pqr/ligand/__init__.py, hard-coded here
  complex        PQR columns carry 4 decimals: |q_pqr - q_mol2| <= 0.5e-4+1e-9
"""

import io
import itertools
import math

from .. import engine

PROPERTY = "C16"
LEVEL = "exploration"
RULE = (
    "case = block of molecules (heavy-atom graph over 22 Sybyl types x bond "
    "labels {1,2,3,ar}, hydrogens explicit) x order alphabet x 3 naming "
    "schemes (+3 bond-record layouts), or one bundled MOL2 file x the same, "
    "or one (hetero-group subset, force field) complex cell x ligands x "
    "ligand naming schemes; every element of each finite set is executed; "
    "non-trivial = distinct molecules (canonical descriptor), distinct "
    "(molecule, order class) pairs with a non-identity order, and distinct "
    "complex cells"
)
ASSUMPTIONS = [
    "supported atom types = Sybyl types present in the PEOE table, the "
    "radius tables and the non-bonded electron table (C.cat is in the PEOE "
    "table but has no non-bonded entry: formal_charge raises KeyError; it is "
    "counted as unsupported); supported bond types = 1, 2, 3, ar (am, du, "
    "un, nc are documented as unsupported and raise NotImplementedError)",
    "valence-feasible = every heavy atom has the normal valence of its Sybyl "
    "type with hydrogens written explicitly; charged groups are N.4 (+1), "
    "N.pl3 carrying a double bond (+1) and carboxylate O.co2 pairs (-1/2 "
    "each; written as 1/2, 2/2 (PRODRG) or ar/ar); ar bonds only join "
    "C.ar/N.ar atoms or C.2-O.co2",
    "atom ids in the MOL2 file are consecutive from 1 in file order and bond "
    "records are renumbered accordingly (the reader resolves bond endpoints "
    "by position)",
    "atoms for which the type alone does not fix a formal charge (N.ar with "
    "three neighbours, unusual connectivities in bundled files) take the "
    "implementation's value in the harness' sum",
    "complex: the MOL2 substructure name equals the PDB residue name of the "
    "ligand (LIG), as the --ligand help text requires; the ligand carries "
    "all its hydrogens in the PDB file; the ligand sits ~15 A from the "
    "peptide",
    "MOL2 coordinates are not used by the parameterisation (checked by "
    "reading the code: only Mol2Bond.length/Mol2Atom.distance touch them and "
    "neither is called), so generated coordinates only need to be distinct",
]
BOUND = {
    "quick": "all acyclic molecules of <= 3 heavy atoms (1,095), one "
    "seed-chosen further exhaustive block (all cyclic 3-heavy-atom "
    "skeletons / aromatic 6-rings / Kekule 5- and 6-rings / mono-substituted "
    "aromatic 6-rings), all 16 bundled MOL2 files; orders: all permutations "
    "up to 6 atoms, else all rotations + reversal + all adjacent "
    "transpositions (files of > 60 atoms: every 8th rotation and "
    "transposition); naming: all 3 schemes on every order, except molecules "
    "of exactly 6 atoms and files of > 60 atoms where all schemes run on "
    "the identity order and one scheme per other order in rotation; "
    "complexes: 32 hetero subsets x 3 ligand namings x 4 ligands under "
    "AMBER, 2 ligands under PARSE for the seed-chosen half of the subsets",
    "thorough": "all molecules on every connected skeleton (acyclic and "
    "cyclic) of <= 4 heavy atoms (24,529), all ring families (5-/6-membered "
    "saturated over {C.3,N.3,O.3,S.3,N.4}, aromatic, Kekule, "
    "mono-substituted aromatic; 2,369), bundled files with the full order "
    "alphabet; naming: full product for <= 3 heavy atoms, ring families and "
    "files of <= 60 atoms, one scheme per non-identity order in rotation for "
    "4-heavy-atom molecules and files of > 60 atoms; complexes: 32 subsets "
    "x 3 namings x 6 ligands x {AMBER, PARSE, CHARMM}",
}

TOL = 1e-9
PQR_TOL = 0.5e-4 + 1e-9
FULL_PERM_LIMIT = 6

# ---------------------------------------------------------------------------
# type alphabet and valence rules (harness-side chemistry)
# ---------------------------------------------------------------------------
TYPES = ["C.3", "C.2", "C.1", "C.ar", "N.3", "N.4", "N.am", "N.pl3", "N.2",
         "N.ar", "N.1", "O.3", "O.2", "O.co2", "S.3", "S.2", "S.o2", "P.3",
         "F", "Cl", "Br", "I"]
TIDX = {t: i for i, t in enumerate(TYPES)}
AROM = ("C.ar", "N.ar")
HALO = ("F", "Cl", "Br", "I")
LABELS = ("1", "2", "3", "ar")

# documented radius tables (pdb2pqr/ligand/__init__.py: ZAP9 first, Bondi
# for atoms not found there; most specific Sybyl type first, then element)
ZAP9 = {"C": 1.87, "H": 1.10, "O.co2": 1.76, "N": 1.40, "S": 2.15,
        "F": 2.40, "Cl": 1.82, "I": 2.65}
BONDI = {"H": 1.20, "He": 1.40, "C": 1.70, "N": 1.55, "O": 1.52, "F": 1.47,
         "Ne": 1.54, "Si": 2.10, "P": 1.80, "S": 1.80, "Cl": 1.75,
         "Ar": 1.88, "As": 1.85, "Se": 1.90, "Br": 1.85, "Kr": 2.02,
         "Te": 2.06, "I": 1.98, "Xe": 2.16}


def element(t):
    return t.split(".")[0]


def ref_radius(t):
    for table in (ZAP9, BONDI):
        for key in (t, element(t)):
            if key in table:
                return table[key]
    return None


def hcount(t, nb):
    """Number of hydrogens that fill heavy atom of type t to its normal
    valence, or None if the heavy-atom bonds are not feasible.
    nb: list of (label, neighbour type or None=unknown)."""
    labs = [l for l, _ in nb]
    deg = len(nb)
    n1, n2, n3, nar = (labs.count(x) for x in LABELS)

    def known(tt, allowed):
        return tt is None or tt in allowed

    for lab, tt in nb:
        if lab == "ar":
            if t in AROM:
                if not known(tt, AROM):
                    return None
            elif t == "C.2":
                if not known(tt, ("O.co2",)):
                    return None
            elif t == "O.co2":
                if not known(tt, ("C.2",)):
                    return None
            else:
                return None
        if tt == "O.co2" and t != "C.2":
            return None
    single = n2 == 0 and n3 == 0 and nar == 0
    if t == "C.3":
        return 4 - deg if single and deg <= 4 else None
    if t == "C.2":
        if n3 or deg > 3:
            return None
        if any(tt is None for _, tt in nb):
            # prefilter on the label pattern alone
            if nar == 0 and n2 == 1:
                return 3 - deg
            if (nar, n2) in ((0, 2), (2, 0)) and n1 <= 1:
                return 1 - n1
            return None
        co2 = sorted(l for l, tt in nb if tt == "O.co2")
        if co2 or nar:
            if co2 not in (["1", "2"], ["2", "2"], ["ar", "ar"]):
                return None
            others = [l for l, tt in nb if tt != "O.co2"]
            if any(l != "1" for l in others) or len(others) > 1:
                return None
            return 1 - len(others)
        if n2 == 1:
            return 3 - deg
        return None
    if t == "C.1":
        if n3 == 1 and n2 == 0 and nar == 0 and n1 <= 1:
            return 1 - n1
        if n2 == 2 and deg == 2:
            return 0
        return None
    if t == "C.ar":
        if nar in (2, 3) and n2 == 0 and n3 == 0 and deg <= 3:
            return 3 - deg
        return None
    if t == "N.3":
        return 3 - deg if single and deg <= 3 else None
    if t == "N.4":
        return 4 - deg if single and deg <= 4 else None
    if t == "N.am":
        return 3 - deg if single and deg <= 3 else None
    if t == "N.pl3":
        if single and deg <= 3:
            return 3 - deg
        if n2 == 1 and n3 == 0 and nar == 0 and deg <= 3:
            return 3 - deg
        return None
    if t == "N.2":
        if n2 == 1 and n3 == 0 and nar == 0 and n1 <= 1:
            return 1 - n1
        return None
    if t == "N.ar":
        return 0 if nar == 2 and deg == 2 else None
    if t == "N.1":
        return 0 if labs == ["3"] else None
    if t in ("O.3", "S.3"):
        return 2 - deg if single and deg <= 2 else None
    if t in ("O.2", "S.2"):
        return 0 if labs == ["2"] else None
    if t == "O.co2":
        return 0 if deg == 1 and labs[0] in ("1", "2", "ar") else None
    if t == "S.o2":
        if n2 == 2 and n3 == 0 and nar == 0 and n1 <= 2:
            return 2 - n1
        return None
    if t == "P.3":
        if single and deg <= 3:
            return 3 - deg
        if n2 == 1 and n3 == 0 and nar == 0 and n1 <= 3:
            return 3 - n1
        return None
    if t in HALO:
        return 1 - deg if single and deg <= 1 else None
    return None


def ref_formal_charge(t, labs):
    """Harness' own reading of the formal charge of an atom from its Sybyl
    type and explicit bonds: octet rule (sum of bond orders minus the neutral
    valence) for N / O / S / halogens, typed charged groups (O.co2 = -1/2),
    hypervalent S.o2 / S.o / P.3 neutral, carbon neutral.  None = the type
    and bonds do not fix it (no opinion)."""
    deg = len(labs)
    n1, n2, n3, nar = (labs.count(x) for x in LABELS)
    bo = n1 + 2 * n2 + 3 * n3
    el = element(t)
    if t == "H":
        return 0 if deg == 1 else None
    if t == "O.co2":
        return -0.5
    if el == "C":
        normal = {"C.3": 4, "C.2": 3, "C.ar": 3, "C.1": 2}.get(t)
        return 0 if deg == normal else None
    if t in ("S.o2", "S.o"):
        return 0
    if nar:
        if t == "N.ar" and nar == 2 and deg == 2:
            return 0
        return None
    if el == "N":
        if t == "N.4" and bo != 4:
            return None
        return {2: -1, 3: 0, 4: 1}.get(bo)
    if el in ("O", "S"):
        return {1: -1, 2: 0, 3: 1}.get(bo)
    if t == "P.3":
        return {3: 0, 4: 1, 5: 0}.get(bo)
    if t in HALO:
        return {0: -1, 1: 0}.get(bo)
    return None


# ---------------------------------------------------------------------------
# molecule enumeration
# ---------------------------------------------------------------------------
def _connected(n, edges):
    adj = {i: set() for i in range(n)}
    for i, j, _ in edges:
        adj[i].add(j)
        adj[j].add(i)
    seen, todo = {0}, [0]
    while todo:
        for k in adj[todo.pop()]:
            if k not in seen:
                seen.add(k)
                todo.append(k)
    return len(seen) == n


def skeletons(n, rings):
    """Connected bond-labelled graphs on n nodes up to isomorphism (node
    types not yet assigned).  Returns list of (edges, automorphisms)."""
    pairs = list(itertools.combinations(range(n), 2))
    perms = list(itertools.permutations(range(n)))
    pidx = {p: k for k, p in enumerate(pairs)}
    seen = {}
    for labs in itertools.product((None,) + LABELS, repeat=len(pairs)):
        edges = [(i, j, l) for (i, j), l in zip(pairs, labs) if l]
        if len(edges) < n - 1 or (not rings and len(edges) != n - 1):
            continue
        if n > 1 and not _connected(n, edges):
            continue
        images = []
        for p in perms:
            img = [None] * len(pairs)
            for (i, j), l in zip(pairs, labs):
                a, b = p[i], p[j]
                img[pidx[(a, b) if a < b else (b, a)]] = l
            images.append(tuple(x or "" for x in img))
        canon = min(images)
        if canon in seen:
            continue
        me = tuple(x or "" for x in labs)
        if me != canon:
            continue  # the canonical representative itself will come
        autos = [p for p, img in zip(perms, images) if img == me]
        seen[canon] = (edges, autos)
    return list(seen.values())


def generic_molecules(n, rings):
    """All feasible typed molecules on n heavy atoms (dedupe by skeleton
    automorphism)."""
    out = []
    for edges, autos in skeletons(n, rings):
        inc = [[] for _ in range(n)]
        for i, j, l in edges:
            inc[i].append((l, j))
            inc[j].append((l, i))
        cands = []
        for i in range(n):
            wild = [(l, None) for l, _ in inc[i]]
            cands.append([t for t in TYPES if hcount(t, wild) is not None])
        if any(not c for c in cands):
            continue
        seen = set()
        for types in itertools.product(*cands):
            ok = True
            for i in range(n):
                nb = [(l, types[j]) for l, j in inc[i]]
                if hcount(types[i], nb) is None:
                    ok = False
                    break
            if not ok:
                continue
            key = min(tuple(TIDX[types[p[i]]] for i in range(n))
                      for p in autos)
            if key in seen:
                continue
            seen.add(key)
            # keep the representative whose own tuple is the key if possible
            out.append({"h": list(types),
                        "b": [[i, j, l] for i, j, l in edges]})
    out.sort(key=lambda d: (len(d["b"]) - len(d["h"]),
                            [TIDX[t] for t in d["h"]],
                            [(i, j, LABELS.index(l)) for i, j, l in d["b"]]))
    return out


def _cycle_bonds(k, labels):
    return [[i, (i + 1) % k, labels[i]] for i in range(k)]


def _dihedral_canon(seq):
    k = len(seq)
    best = None
    for s in (list(seq), list(seq)[::-1]):
        for r in range(k):
            c = tuple(s[r:] + s[:r])
            if best is None or c < best:
                best = c
    return best


SAT_ALPHABET = ("C.3", "N.3", "O.3", "S.3", "N.4")
# substituents on ring position 0 (a C.ar): heavy types and bonds, atom 0 of
# the substituent is bonded to the ring atom by a single bond
SUBSTITUENTS = [
    ("H", [], []),
    ("F", ["F"], []), ("Cl", ["Cl"], []), ("Br", ["Br"], []), ("I", ["I"], []),
    ("OH", ["O.3"], []), ("SH", ["S.3"], []), ("NH2", ["N.3"], []),
    ("NH2pl", ["N.pl3"], []), ("NH3+", ["N.4"], []), ("CH3", ["C.3"], []),
    ("CN", ["C.1", "N.1"], [[0, 1, "3"]]),
    ("CHO", ["C.2", "O.2"], [[0, 1, "2"]]),
    ("CO2-", ["C.2", "O.co2", "O.co2"], [[0, 1, "ar"], [0, 2, "ar"]]),
    ("OMe", ["O.3", "C.3"], [[0, 1, "1"]]),
    ("SO2H", ["S.o2", "O.2", "O.2"], [[0, 1, "2"], [0, 2, "2"]]),
    ("PO", ["P.3", "O.2"], [[0, 1, "2"]]),
    ("CONH2", ["C.2", "O.2", "N.am"], [[0, 1, "2"], [0, 2, "1"]]),
]


def ring_family(kind):
    out = []
    seen = set()
    if kind in ("sat5", "sat6"):
        k = int(kind[3])
        for seq in itertools.product(SAT_ALPHABET, repeat=k):
            c = _dihedral_canon([TIDX[t] for t in seq])
            if c in seen:
                continue
            seen.add(c)
            out.append({"h": list(seq), "b": _cycle_bonds(k, ["1"] * k),
                        "ring": k})
    elif kind == "ar6":
        for seq in itertools.product(AROM, repeat=6):
            c = _dihedral_canon([TIDX[t] for t in seq])
            if c in seen:
                continue
            seen.add(c)
            out.append({"h": list(seq), "b": _cycle_bonds(6, ["ar"] * 6),
                        "ring": 6})
    elif kind == "ar6sub":
        for seq in itertools.product(AROM, repeat=5):
            ring = ["C.ar"] + list(seq)
            mirror = ["C.ar"] + list(seq)[::-1]
            c = min(tuple(TIDX[t] for t in ring),
                    tuple(TIDX[t] for t in mirror))
            if c in seen:
                continue
            seen.add(c)
            for _name, sh, sb in SUBSTITUENTS[1:]:
                h = ring + list(sh)
                b = _cycle_bonds(6, ["ar"] * 6) + [[0, 6, "1"]]
                b += [[6 + i, 6 + j, l] for i, j, l in sb]
                out.append({"h": h, "b": b, "ring": 6})
    elif kind == "kek6":
        # the alternating bond pattern breaks the ring symmetry: no dedupe
        for seq in itertools.product(("C.2", "N.2"), repeat=6):
            out.append({"h": list(seq),
                        "b": _cycle_bonds(6, ["2", "1"] * 3), "ring": 6})
    elif kind == "kek5":
        for x in ("C.3", "N.3", "N.pl3", "N.am", "O.3", "S.3", "N.4"):
            for seq in itertools.product(("C.2", "N.2"), repeat=4):
                c = (x, min(seq, seq[::-1]))
                if c in seen:
                    continue
                seen.add(c)
                out.append({"h": [x] + list(seq),
                            "b": _cycle_bonds(5, ["1", "2", "1", "2", "1"]),
                            "ring": 5})
    else:
        raise ValueError(kind)
    return [d for d in out if feasible(d)]


def _incident(desc):
    inc = [[] for _ in desc["h"]]
    for i, j, l in desc["b"]:
        inc[i].append((l, j))
        inc[j].append((l, i))
    return inc


def feasible(desc):
    inc = _incident(desc)
    for i, t in enumerate(desc["h"]):
        if hcount(t, [(l, desc["h"][j]) for l, j in inc[i]]) is None:
            return False
    return True


# ---------------------------------------------------------------------------
# molecule object: explicit hydrogens, coordinates
# ---------------------------------------------------------------------------
class Mol:
    def __init__(self, types, bonds, coords, names=None, label=""):
        self.types = list(types)
        self.bonds = [tuple(b) for b in bonds]  # (i, j, label) canonical ids
        self.coords = [tuple(c) for c in coords]
        self.orig_names = names
        self.label = label
        self.n = len(self.types)
        self.adj = [[] for _ in range(self.n)]
        for i, j, l in self.bonds:
            self.adj[i].append((j, l))
            self.adj[j].append((i, l))

    def labs(self, i):
        return [l for _, l in self.adj[i]]

    def charged_class(self):
        c = set()
        for i, t in enumerate(self.types):
            fc = ref_formal_charge(t, self.labs(i))
            if fc:
                c.add(t)
        return "charged-group:" + "+".join(sorted(c)) if c else "neutral"


_DIRS = None


def _dirs():
    global _DIRS
    if _DIRS is None:
        d = []
        for v in [(1, 0, 0), (-1, 0, 0), (0, 1, 0), (0, -1, 0), (0, 0, 1),
                  (0, 0, -1)] + list(itertools.product((1, -1), repeat=3)) + [
                      (1, 1, 0), (1, -1, 0), (-1, 1, 0), (-1, -1, 0),
                      (1, 0, 1), (1, 0, -1), (-1, 0, 1), (-1, 0, -1),
                      (0, 1, 1), (0, 1, -1), (0, -1, 1), (0, -1, -1)]:
            n = math.sqrt(sum(x * x for x in v))
            d.append(tuple(x / n for x in v))
        _DIRS = d
    return _DIRS


def _place(parent, length, placed, prefer=None):
    cands = ([prefer] if prefer else []) + _dirs()
    for scale in (1.0, 1.15, 1.3, 1.6, 2.0):
        for d in cands:
            p = tuple(parent[k] + scale * length * d[k] for k in range(3))
            if all(math.dist(p, q) > 0.85 for q in placed):
                return p
    raise RuntimeError("cannot place atom")


def from_desc(desc):
    """Expand a heavy-atom descriptor: add hydrogens, embed."""
    h = desc["h"]
    n = len(h)
    inc = _incident(desc)
    ring = desc.get("ring", 0)
    coords = [None] * n
    if ring:
        rad = 1.45 / (2 * math.sin(math.pi / ring))
        for i in range(ring):
            a = 2 * math.pi * i / ring
            coords[i] = (rad * math.cos(a), rad * math.sin(a), 0.0)
    else:
        coords[0] = (0.0, 0.0, 0.0)
    placed = [c for c in coords if c is not None]

    def outward(p):
        r = math.sqrt(p[0] ** 2 + p[1] ** 2 + p[2] ** 2)
        return None if r < 1e-6 else tuple(x / r for x in p)

    todo = [i for i in range(n) if coords[i] is not None]
    while todo:
        i = todo.pop(0)
        for _l, j in inc[i]:
            if coords[j] is None:
                coords[j] = _place(coords[i], 1.5, placed,
                                   outward(coords[i]))
                placed.append(coords[j])
                todo.append(j)
    if any(c is None for c in coords):
        raise ValueError("descriptor is not connected")
    types = list(h)
    bonds = [(i, j, l) for i, j, l in desc["b"]]
    for i in range(n):
        nh = hcount(h[i], [(l, h[j]) for l, j in inc[i]])
        if nh is None:
            raise ValueError(f"infeasible atom {i} in {desc}")
        for _ in range(nh):
            p = _place(coords[i], 1.05, placed, outward(coords[i]))
            placed.append(p)
            coords.append(p)
            types.append("H")
            bonds.append((i, len(types) - 1, "1"))
    return Mol(types, bonds, coords, label=desc_label(desc))


def desc_label(desc):
    return (",".join(desc["h"]) + "|" +
            ",".join(f"{i}{'-=#:'[LABELS.index(l)]}{j}"
                     for i, j, l in desc["b"]))


BUNDLED_DIR = engine.REPO / "tests" / "data"


def bundled_files():
    return sorted(p.name for p in BUNDLED_DIR.glob("*.mol2"))


def parse_mol2(text, label=""):
    """Harness' own MOL2 reader (sections ATOM/BOND, whitespace tokens)."""
    section = None
    atoms, bonds = [], []
    for line in text.splitlines():
        s = line.strip()
        if s.startswith("@<TRIPOS>"):
            section = s[9:].strip().upper()
            continue
        if not s or s.startswith("#"):
            continue
        w = s.split()
        if section == "ATOM":
            t = w[5].split(".")
            t[0] = t[0].capitalize()
            if len(t) == 2:
                t[1] = t[1].lower()
            atoms.append((int(w[0]), w[1], float(w[2]), float(w[3]),
                          float(w[4]), ".".join(t)))
        elif section == "BOND":
            bonds.append((int(w[1]), int(w[2]), w[3]))
    ids = {a[0]: k for k, a in enumerate(atoms)}
    return Mol([a[5] for a in atoms],
               [(ids[i], ids[j], l) for i, j, l in bonds],
               [(a[2], a[3], a[4]) for a in atoms],
               names=[a[1] for a in atoms], label=label)


def load_mol(spec):
    if "file" in spec:
        text = (BUNDLED_DIR / spec["file"]).read_text()
        return parse_mol2(text, label=spec["file"])
    return from_desc(spec)


# ---------------------------------------------------------------------------
# orders, names, writer
# ---------------------------------------------------------------------------
def order_alphabet(n, limit=FULL_PERM_LIMIT, stride=1):
    """List of (order, class); order[k] = canonical id of the k-th atom in
    the file.  Identity first.  stride > 1 (quick tier, files of > 60 atoms
    only) keeps every stride-th rotation / transposition."""
    ident = tuple(range(n))
    if n <= limit:
        return [(p, "identity" if p == ident else "permutation")
                for p in itertools.permutations(range(n))]
    out, seen = [], set()

    def add(p, cls):
        if p not in seen:
            seen.add(p)
            out.append((p, cls))

    add(ident, "identity")
    for r in range(stride, n, stride):
        add(ident[r:] + ident[:r], "rotation")
    add(ident[::-1], "reversal")
    for k in range(0, n - 1, stride):
        p = list(ident)
        p[k], p[k + 1] = p[k + 1], p[k]
        add(tuple(p), "transposition")
    return out


NAMINGS = ("elem-index", "elem-revindex", "opaque")


def make_names(mol, scheme):
    n = mol.n
    if scheme == "original":
        return list(mol.orig_names)
    if scheme in ("elem-index", "elem-revindex"):
        total = {}
        for t in mol.types:
            total[element(t)] = total.get(element(t), 0) + 1
        count, names = {}, []
        for t in mol.types:
            e = element(t)
            count[e] = count.get(e, 0) + 1
            k = count[e] if scheme == "elem-index" else total[e] - count[e] + 1
            names.append(f"{e}{k}")
        return names
    if scheme == "opaque":
        stride = next(s for s in (7, 5, 3, 11, 13, 17, 1) if math.gcd(s, n) == 1)
        return [f"A{(stride * i + 3) % n + 1:02d}" for i in range(n)]
    if scheme == "water-like":  # collides with water's O / H1 / H2
        names, seen_o, nh, cnt = [], False, 0, {}
        for t in mol.types:
            e = element(t)
            if e == "O" and not seen_o:
                names.append("O")
                seen_o = True
            elif e == "H":
                nh += 1
                names.append(f"H{nh}")
            else:
                cnt[e] = cnt.get(e, 0) + 1
                names.append(f"{e}{cnt[e]}" if e != "O" else f"O{cnt[e] + 1}")
        return names
    if scheme == "private":  # cannot collide with water / ions
        cnt, names = {}, []
        for t in mol.types:
            e = element(t)[0]
            cnt[e] = cnt.get(e, 0) + 1
            names.append(f"{e}X{cnt[e]}")
        return names
    raise ValueError(scheme)


def write_mol2(mol, order, names, bondmode="sorted", resname="LIG"):
    pos = {cid: k for k, cid in enumerate(order)}
    # the charge column of an ATOM record is optional in the format, and
    # its values are input the assigned charges must not depend on
    lines = ["@<TRIPOS>MOLECULE", resname,
             f"{mol.n:5d} {len(mol.bonds):5d}     1", "SMALL",
             "NO_CHARGES" if bondmode == "nocharge" else "USER_CHARGES",
             "", "@<TRIPOS>ATOM"]
    for k, cid in enumerate(order):
        x, y, z = mol.coords[cid]
        line = (f"{k + 1:7d} {names[cid]:<8s} {x:9.4f} {y:9.4f} "
                f"{z:9.4f} {mol.types[cid]:<6s} {1:3d} {resname:<4s}")
        if bondmode == "usercharge":
            line += f" {0.25 * ((k % 5) - 2):9.4f}"
        elif bondmode != "nocharge":
            line += f" {0.0:9.4f}"
        lines.append(line)
    lines.append("@<TRIPOS>BOND")
    recs = []
    for i, j, l in mol.bonds:
        a, b = pos[i] + 1, pos[j] + 1
        if bondmode == "asis":
            recs.append((a, b, l))
        else:
            recs.append((min(a, b), max(a, b), l))
    if bondmode != "asis":
        recs.sort(key=lambda r: (r[0], r[1]))
    if bondmode == "reversed":
        recs = [(b, a, l) for a, b, l in recs[::-1]]
    for k, (a, b, l) in enumerate(recs):
        lines.append(f"{k + 1:6d} {a:5d} {b:5d} {l}")
    lines += ["@<TRIPOS>SUBSTRUCTURE", f"{1:6d} {resname:<4s} {1:6d}", ""]
    return "\n".join(lines)


# ---------------------------------------------------------------------------
# execution of the real code
# ---------------------------------------------------------------------------
def evaluate(text, order, names):
    """Run the real reader + parameteriser.  Returns per canonical atom id
    (charge, radius, implementation formal charge)."""
    from pdb2pqr.ligand.mol2 import Mol2Molecule

    m = Mol2Molecule()
    m.read(io.StringIO(text))
    atoms = list(m.atoms.values())
    if len(atoms) != len(order):
        raise AssertionError("harness: atom count mismatch after read")
    fcs = [a.formal_charge for a in atoms]
    m.assign_parameters()
    n = len(order)
    q, r, fc, ty = [None] * n, [None] * n, [None] * n, [None] * n
    for k, a in enumerate(atoms):
        cid = order[k]
        if a.name != names[cid]:
            raise AssertionError("harness: name mismatch after read")
        q[cid], r[cid], fc[cid], ty[cid] = a.charge, a.radius, fcs[k], a.type
    return q, r, fc, ty


EQUILIBRATE_LATTICE = [{"scale": 1.0}, {"scale": 1.25}, {"scale": 2.0},
                       {"damp": 0.25}, {"damp": 1.0}, {"num_cycles": 1},
                       {"num_cycles": 12}, {"scale": 1.3, "damp": 0.7}]


def equilibrate_total(text, kw):
    """Sum of the charges after peoe.equilibrate(atoms, **kw) on the molecule
    read from `text` (charges preset to the formal charges, as
    assign_charges does)."""
    from pdb2pqr.ligand import peoe
    from pdb2pqr.ligand.mol2 import Mol2Molecule

    m = Mol2Molecule()
    m.read(io.StringIO(text))
    atoms = list(m.atoms.values())
    for a in atoms:
        a.charge = a.formal_charge
    try:
        peoe.equilibrate(atoms, **kw)
    except (KeyError, IndexError, ValueError):
        return None
    return math.fsum(a.charge for a in atoms)


def automorphic(mol, q0, q1, budget=200000):
    """True if some automorphism s of the typed labelled graph has
    q1[i] == q0[s(i)] for all i; None if the search budget ran out."""
    n = mol.n
    cand = []
    for i in range(n):
        ti, di = mol.types[i], sorted(mol.labs(i))
        cand.append([j for j in range(n)
                     if mol.types[j] == ti and abs(q1[i] - q0[j]) <= TOL
                     and sorted(mol.labs(j)) == di])
        if not cand[-1]:
            return False
    # visit atoms in BFS order so that constraints bite early
    seq, seen = [], set()
    for start in sorted(range(n), key=lambda i: len(cand[i])):
        if start in seen:
            continue
        seen.add(start)
        todo = [start]
        while todo:
            i = todo.pop(0)
            seq.append(i)
            for j, _ in mol.adj[i]:
                if j not in seen:
                    seen.add(j)
                    todo.append(j)
    bond = {}
    for i, j, l in mol.bonds:
        bond[(i, j)] = l
        bond[(j, i)] = l
    img, used = {}, set()
    steps = [0]

    def rec(k):
        if k == n:
            return True
        steps[0] += 1
        if steps[0] > budget:
            return None
        i = seq[k]
        for j in cand[i]:
            if j in used:
                continue
            ok = True
            for nb, l in mol.adj[i]:
                if nb in img and bond.get((j, img[nb])) != l:
                    ok = False
                    break
            if not ok:
                continue
            img[i] = j
            used.add(j)
            res = rec(k + 1)
            if res:
                return True
            del img[i]
            used.discard(j)
            if res is None:
                return None
        return False

    return rec(0)


def _bump(d, k, n=1):
    d[k] = d.get(k, 0) + n


class Recorder:
    def __init__(self):
        self.res = {"evals": 0, "violations": [], "events": {},
                    "nontrivial": []}
        self._sigs = {}

    def violation(self, sig, detail, case):
        if sig in self._sigs:
            self._sigs[sig]["detail"]["repeats_in_case"] += 1
            return
        detail = dict(detail)
        detail["repeats_in_case"] = 0
        v = {"sig": sig, "detail": detail, "case": case}
        self._sigs[sig] = v
        self.res["violations"].append(v)

    def event(self, k, n=1):
        _bump(self.res["events"], k, n)


def check_molecule(spec, rec, only=None, chunk=(0, 1), stride=1,
                   rotnames=None):
    """All orders x namings (+ bond layouts) of one molecule.
    only = (order, naming, bondmode) restricts to the identity reference plus
    that single variant (replay of a minimal counter-example).
    chunk = (c, k): this call handles orders c, c+k, ... (large files are
    spread over several cases).  stride > 1: reduced order alphabet.
    rotnames: "all" = one naming scheme per non-identity order, schemes taken
    in rotation (all schemes on the identity order); "six" = the same but
    only for molecules of exactly FULL_PERM_LIMIT atoms (720 orders)."""
    mol = load_mol(spec)
    n = mol.n
    cls = mol.charged_class()
    namings = list(NAMINGS) + (["original"] if mol.orig_names else [])
    names_by = {s: make_names(mol, s) for s in namings}
    ident = tuple(range(n))
    rec.res["nontrivial"].append("mol:" + mol.label)

    def one_case(order, naming, bondmode):
        return {"mode": "one", "mol": spec, "order": list(order),
                "naming": naming, "bondmode": bondmode}

    def run(order, naming, bondmode):
        text = write_mol2(mol, order, names_by[naming], bondmode)
        rec.res["evals"] += 1
        try:
            return evaluate(text, order, names_by[naming])
        except AssertionError:
            raise
        except Exception as exc:  # supported input must be parameterised
            rec.violation(
                f"C16/exception/{type(exc).__name__}/{cls}",
                {"molecule": mol.label, "message": str(exc)[:200],
                 "mol2": text}, one_case(order, naming, bondmode))
            rec.event("exception:" + type(exc).__name__)
            return None

    # ---- reference evaluation: identity order, first naming scheme -------
    base_naming = "original" if mol.orig_names else namings[0]
    base_mode = "asis" if mol.orig_names else "sorted"
    base = run(ident, base_naming, base_mode)
    if base is None:
        return
    q0, r0, fc0, ty0 = base
    case0 = one_case(ident, base_naming, base_mode)
    # types survive the reader
    for i in range(n):
        if ty0[i] != mol.types[i]:
            rec.violation(f"C16/type-altered-by-reader/{mol.types[i]}",
                          {"molecule": mol.label, "got": ty0[i]}, case0)
    # formal charges: harness reading vs implementation
    mine, no_opinion = [], 0
    for i in range(n):
        f = ref_formal_charge(mol.types[i], mol.labs(i))
        if f is None:
            no_opinion += 1
            f = fc0[i]
        mine.append(f)
    if no_opinion:
        rec.event("formal-charge:no-independent-opinion-atoms", no_opinion)
    total_q = math.fsum(q0)
    total_code = math.fsum(fc0)
    total_mine = math.fsum(mine)
    rec.event(f"total-formal-charge:{total_mine:+g}")
    rec.event("class:" + cls)
    if abs(total_q - total_code) > TOL:
        rec.violation(
            f"C16/conservation/{cls}",
            {"molecule": mol.label, "sum_charges": total_q,
             "sum_formal_impl": total_code, "sum_formal_ref": total_mine,
             "mol2": write_mol2(mol, ident, names_by[base_naming])}, case0)
    # the equilibration itself with every scaling / damping / cycle count of
    # a small lattice: whatever its parameters, it only redistributes charge
    if abs(total_code) > TOL or mol.orig_names:
        text0 = write_mol2(mol, ident, names_by[base_naming])
        for kw in EQUILIBRATE_LATTICE:
            tot = equilibrate_total(text0, kw)
            rec.res["evals"] += 1
            if tot is None:
                continue
            if abs(tot - total_code) > 1e-6:
                tagk = ",".join(f"{k}={v}" for k, v in sorted(kw.items()))
                rec.violation(
                    f"C16/conservation/equilibrate({tagk})/{cls}",
                    {"molecule": mol.label, "sum_charges": tot,
                     "sum_formal_impl": total_code, "mol2": text0}, case0)
            else:
                rec.event("equilibrate-parameters-conserve-charge")
    if abs(total_q - total_mine) > TOL and abs(total_q - total_code) <= TOL:
        diffs = sorted({
            f"{mol.types[i]}:bonds={'.'.join(sorted(mol.labs(i)))}"
            f":impl={fc0[i]:+g}:expected={mine[i]:+g}"
            for i in range(n) if abs(fc0[i] - mine[i]) > TOL})
        # Phosphorus groups: MOL2 writers encode phosphates inconsistently
        # and the implementation documents a heuristic for them ("first O.3
        # attached to phosphorus"); the independent octet-rule model makes no
        # claim for P atoms and for O.3 atoms of phosphate groups, so such
        # differences are recorded as observed outcomes, not violations.
        judged = [d_ for d_ in diffs
                  if not (d_.startswith("P.") or d_.startswith("O.3:bonds=1:"))]
        if not judged:
            for d_ in diffs[:3]:
                rec.event("formal-charge-model-not-judged:" + d_)
            diffs = []
    else:
        diffs = []
    if diffs:
        rec.violation(
            "C16/formal-charge-model/" + "/".join(diffs[:3]),
            {"molecule": mol.label, "sum_charges": total_q,
             "sum_formal_impl": total_code, "sum_formal_ref": total_mine,
             "atoms": [[names_by[base_naming][i], mol.types[i], fc0[i],
                        mine[i]] for i in range(n)
                       if abs(fc0[i] - mine[i]) > TOL],
             "mol2": write_mol2(mol, ident, names_by[base_naming])}, case0)
    elif any(abs(fc0[i] - mine[i]) > TOL for i in range(n)):
        rec.event("formal-charge:per-atom-differs-sum-agrees")
    # radii
    for i in range(n):
        exp = ref_radius(mol.types[i])
        if r0[i] is None or not (r0[i] > 0) or exp is None or \
                abs(r0[i] - exp) > TOL:
            rec.violation(
                f"C16/radius/{mol.types[i]}:got={r0[i]}:documented={exp}",
                {"molecule": mol.label}, case0)
    rec.event("radius-lookups-checked", n)

    # ---- variants ---------------------------------------------------------
    def compare(order, naming, bondmode, got, what):
        q1, r1, fc1, _ty = got
        tq = math.fsum(q1)
        if abs(tq - math.fsum(fc1)) > TOL:
            rec.violation(
                f"C16/conservation/{cls}",
                {"molecule": mol.label, "sum_charges": tq,
                 "sum_formal_impl": math.fsum(fc1), "variant": what},
                one_case(order, naming, bondmode))
        if any(abs(a - b) > TOL for a, b in zip(r0, r1)):
            rec.violation(f"C16/radius-depends-on-{what}",
                          {"molecule": mol.label},
                          one_case(order, naming, bondmode))
        if all(abs(a - b) <= TOL for a, b in zip(q0, q1)):
            return "same"
        if what == "names":
            rec.violation(
                f"C16/name-dependence/{cls}",
                {"molecule": mol.label, "naming": naming,
                 "max_abs_diff": max(abs(a - b) for a, b in zip(q0, q1))},
                one_case(order, naming, bondmode))
            return "diff"
        auto = automorphic(mol, q0, q1)
        if auto:
            rec.event(f"{what}:values-exchanged-between-equivalent-atoms")
            return "auto"
        ms0 = sorted((mol.types[i], len(mol.adj[i]), round(q0[i], 8))
                     for i in range(n))
        ms1 = sorted((mol.types[i], len(mol.adj[i]), round(q1[i], 8))
                     for i in range(n))
        if auto is None:
            rec.event("automorphism-search-budget-exhausted")
            if ms0 == ms1:
                return "auto?"
        kind = ("beyond-automorphism" if ms0 == ms1
                else "charge-values-change")
        rec.violation(
            f"C16/{what}-dependence/{kind}/{cls}",
            {"molecule": mol.label, "order": list(order),
             "max_abs_diff": max(abs(a - b) for a, b in zip(q0, q1)),
             "changed": [[names_by[naming][i], mol.types[i], q0[i], q1[i]]
                         for i in range(n) if abs(q0[i] - q1[i]) > TOL][:8]},
            one_case(order, naming, bondmode))
        return "diff"

    def order_check(order, naming, got):
        """A reordered file written with another naming scheme than the
        reference: decide whether names or order are responsible before
        reporting (one extra evaluation, only on a mismatch)."""
        if naming != base_naming and any(
                abs(a - b) > TOL for a, b in zip(q0, got[0])) and \
                not automorphic(mol, q0, got[0]):
            ref = run(order, base_naming, "sorted")
            if ref is not None and (
                    all(abs(a - b) <= TOL for a, b in zip(q0, ref[0]))
                    or automorphic(mol, q0, ref[0])):
                _name_check(mol, rec, cls, ref, got, order, naming, "sorted",
                            one_case)
                return
        compare(order, naming, "sorted", got, "order")

    if only is not None:
        order, naming, bondmode = only
        order = tuple(order)
        if order == ident and bondmode != base_mode:
            got = run(ident, naming, bondmode)
            if got is not None:
                compare(ident, naming, bondmode, got, "bond-record-order")
        elif order == ident:
            got = run(ident, naming, bondmode)
            ref = base if base_mode == bondmode else run(
                ident, base_naming, bondmode)
            if got is not None and ref is not None:
                _name_check(mol, rec, cls, ref, got, ident, naming, bondmode,
                            one_case)
        else:
            got = run(order, naming, "sorted")
            if got is not None:
                order_check(order, naming, got)
                if naming != namings[0]:
                    first = run(order, namings[0], "sorted")
                    if first is not None:
                        _name_check(mol, rec, cls, first, got, order, naming,
                                    "sorted", one_case)
        return

    c, k = chunk
    base_sorted = base  # identity order, reference names, sorted bond records
    if c == 0:
        for bondmode in ("sorted", "reversed", "asis", "nocharge",
                         "usercharge"):
            if bondmode == base_mode:
                continue
            got = run(ident, base_naming, bondmode)
            if bondmode == "sorted":
                base_sorted = got
            if got is not None:
                compare(ident, base_naming, bondmode, got,
                        "bond-record-order")
                rec.event("bond-layout-variants")
        rec.event("molecules")
    orders = order_alphabet(n, stride=stride)
    classes = set()
    done = 0
    for oi, (order, ocls) in enumerate(orders):
        if oi % k != c:
            continue
        done += 1
        first = base_sorted if order == ident else None
        use = namings
        if order != ident and (rotnames == "all" or (
                rotnames == "six" and n == FULL_PERM_LIMIT)):
            use = [namings[oi % len(namings)]]
        for naming in use:
            if order == ident and naming == base_naming:
                continue
            got = run(order, naming, "sorted")
            if got is None:
                continue
            if order == ident:
                if first is not None:
                    _name_check(mol, rec, cls, first, got, order, naming,
                                "sorted", one_case)
            elif first is None:
                first = got
                order_check(order, naming, got)
            else:
                _name_check(mol, rec, cls, first, got, order, naming,
                            "sorted", one_case)
        classes.add(ocls)
    for oc in classes:
        if oc != "identity":
            rec.res["nontrivial"].append(f"{mol.label}@{oc}")
    rec.event("orders-executed", done)


def _name_check(mol, rec, cls, first, got, order, naming, bondmode, one_case):
    qa, ra = first[0], first[1]
    qb, rb = got[0], got[1]
    if any(abs(a - b) > TOL for a, b in zip(qa, qb)):
        rec.violation(
            f"C16/name-dependence/{cls}",
            {"molecule": mol.label, "naming": naming, "order": list(order),
             "max_abs_diff": max(abs(a - b) for a, b in zip(qa, qb))},
            one_case(order, naming, bondmode))
    if any(abs(a - b) > TOL for a, b in zip(ra, rb)):
        rec.violation("C16/radius-depends-on-names", {"molecule": mol.label},
                      one_case(order, naming, bondmode))
    if abs(math.fsum(qb) - math.fsum(got[2])) > TOL:
        rec.violation(
            f"C16/conservation/{cls}",
            {"molecule": mol.label, "sum_charges": math.fsum(qb),
             "sum_formal_impl": math.fsum(got[2]), "variant": "names"},
            one_case(order, naming, bondmode))


def check_unsupported(rec):
    """Document the boundary of the supported alphabet (events only)."""
    mol = from_desc({"h": ["C.2", "O.2", "N.am"],
                     "b": [[0, 1, "2"], [0, 2, "1"]]})
    names = make_names(mol, "elem-index")
    text = write_mol2(mol, tuple(range(mol.n)), names)
    for lab in ("am", "du", "un", "nc"):
        t2 = text.replace("\n     2     1     3 1", f"\n     2     1     3 {lab}")
        rec.res["evals"] += 1
        try:
            evaluate(t2, tuple(range(mol.n)), names)
            rec.event(f"bond-type:{lab}:accepted")
        except Exception as exc:
            rec.event(f"bond-type:{lab}:{type(exc).__name__}")
    mol = from_desc({"h": ["C.2", "N.pl3", "N.pl3", "N.pl3"],
                     "b": [[0, 1, "2"], [0, 2, "1"], [0, 3, "1"]]})
    names = make_names(mol, "elem-index")
    text = write_mol2(mol, tuple(range(mol.n)), names).replace(
        " C.2   ", " C.cat ")
    rec.res["evals"] += 1
    try:
        evaluate(text, tuple(range(mol.n)), names)
        rec.event("atom-type:C.cat:accepted")
    except Exception as exc:
        rec.event(f"atom-type:C.cat:{type(exc).__name__}")


# ---------------------------------------------------------------------------
# part (b): complexes
# ---------------------------------------------------------------------------
COMPLEX_LIGANDS = {
    "methanol": {"h": ["C.3", "O.3"], "b": [[0, 1, "1"]]},
    "methylammonium": {"h": ["C.3", "N.4"], "b": [[0, 1, "1"]]},
    "acetate": {"h": ["C.3", "C.2", "O.co2", "O.co2"],
                "b": [[0, 1, "1"], [1, 2, "ar"], [1, 3, "ar"]]},
    "ethanolammonium": {"h": ["O.3", "C.3", "C.3", "N.4"],
                        "b": [[0, 1, "1"], [1, 2, "1"], [2, 3, "1"]]},
    "ethanol.mol2": {"file": "ethanol.mol2"},
    "acetate.mol2": {"file": "acetate.mol2"},
}
COMPLEX_NAMINGS = ("water-like", "elem-index", "private")
EXTRAS = ("W1", "W3", "XYZ", "XYQ", "ZN")
LIG_SEQ = 101
# hetero groups the bundled force fields carry their own entries for
FF_HETERO_ENTRIES = (("CHARMM", "ADP"), ("CHARMM", "NAD"), ("AMBER", "NME"))


def _kind(res_name, lig_res="LIG"):
    if res_name in ("HOH", "WAT"):
        return "water"
    if res_name in ("XYZ", "XYQ", "QQQ"):
        return "foreign-hetero-group"
    if res_name == "ZN":
        return "ion"
    if res_name == lig_res:
        return "ligand"
    return "protein"


def entry_names(mol, ff, entry):
    """Atom names taken, element by element, from the force field's own
    entry for a hetero group (the ligand is then named like a residue the
    force field knows)."""
    import re

    dat = (engine.REPO / "pdb2pqr" / "dat" / f"{ff}.DAT").read_text()
    pool = {}
    for line in dat.splitlines():
        w = line.split()
        if len(w) >= 4 and w[0] == entry:
            el = re.match(r"[A-Z]", w[1])
            if el:
                pool.setdefault(el.group(0), []).append(w[1])
    names = []
    for i, t in enumerate(mol.types):
        e = element(t)[0]
        # elements the entry has run out of get a private name
        names.append(pool[e].pop(0) if pool.get(e) else f"{e}Z{i}")
    return names


_PEPTIDE = None


def _peptide_lines():
    global _PEPTIDE
    if _PEPTIDE is None:
        from .. import build

        atoms = build.build_peptide(["ALA", "SER", "ALA"])
        text = build.pdb_text(atoms, end=False)
        _PEPTIDE = text.rstrip("\n").split("\n")
    return list(_PEPTIDE)


def complex_pdb(mol, names, extras, with_ligand=True, lig_res="LIG",
                copies=1, serial0=100):
    """PDB text and the list of hetero atoms written (res_name, seq, name)."""
    from ..pdbfmt import atom_line

    lines = _peptide_lines()
    # serial0 = 0: the hetero records restart their numbering at 1 (a ligand
    # pasted into the file), colliding with the serials of the peptide
    serial = serial0
    cx = sum(c[0] for c in mol.coords) / mol.n
    cy = sum(c[1] for c in mol.coords) / mol.n
    cz = sum(c[2] for c in mol.coords) / mol.n
    shift = (15.0 - cx, 15.0 - cy, 15.0 - cz)

    def het(name, res, seq, xyz, el, chain="A"):
        nonlocal serial
        serial += 1
        lines.append(atom_line(serial, name, res, chain, seq, *xyz,
                               record="HETATM", element=el.upper()))

    if with_ligand:
        for c in range(copies):  # further copies: next number, chain B
            for i in range(mol.n):
                x, y, z = (mol.coords[i][k] + shift[k] for k in range(3))
                het(names[i], lig_res, LIG_SEQ + c, (x, y + 25.0 * c, z),
                    element(mol.types[i]), chain="A" if c == 0 else "B")
    heavy = [i for i in range(mol.n) if mol.types[i] != "H"]
    if "W1" in extras:
        het("O", "HOH", 201, (-12.0, 14.0, 3.0), "O")
    if "W3" in extras:
        het("O", "HOH", 202, (14.0, -12.0, 5.0), "O")
        het("H1", "HOH", 202, (14.76, -12.0, 5.59), "H")
        het("H2", "HOH", 202, (13.24, -12.0, 5.59), "H")
    if "XYZ" in extras:  # all names taken from the ligand
        ids = heavy[:2] if len(heavy) >= 2 else heavy + [mol.n - 1]
        for k, i in enumerate(ids):
            het(names[i], "XYZ", 301, (-14.0 + 1.5 * k, -14.0, -6.0),
                element(mol.types[i]))
    if "XYQ" in extras:  # one shared name, one private
        i = heavy[-1]
        het(names[i], "XYQ", 302, (-15.0, 13.0, -12.0),
            element(mol.types[i]))
        het("QQ1", "XYQ", 302, (-13.5, 13.0, -12.0), "C")
    if "QQQ" in extras:  # private names only, listed after the ligand
        het("QA1", "QQQ", 303, (-16.0, -3.0, 12.0), "C")
        het("QA2", "QQQ", 303, (-14.5, -3.0, 12.0), "O")
    if "ZN" in extras:
        het("ZN", "ZN", 401, (16.0, 16.0, -14.0), "ZN")
    lines.append("END")
    return "\n".join(lines) + "\n"


def _pqr_key(a):
    return (a["res_name"], a["chain"], a["res_seq"], a["name"])


def check_complex_cell(case, rec):
    from pdb2pqr import main

    from .. import pipeline
    from ..refs import pqr_ref

    extras = list(case["extras"])
    ff = case["ff"]
    opts = [f"--ff={ff}"]
    if case.get("pka"):
        # the pKa route strips and rebuilds the polymer's hydrogens before
        # the ligand is parameterised: the ligand must come out the same
        opts += ["--titration-state-method=propka", "--with-ph=7"]
    lig_res = case.get("lig_resname", "LIG")
    copies = case.get("copies", 1)
    lig_seqs = {LIG_SEQ + c for c in range(copies)}
    # reference: same hetero groups, no ligand, no --ligand option
    ref_cache = {}

    def reference(mol, names):
        # XYZ/XYQ atom names depend on the ligand naming -> key on them
        text = complex_pdb(mol, names, extras, with_ligand=False)
        if text not in ref_cache:
            r = pipeline.run(text, opts)
            rec.res["evals"] += 1
            if not r.ok:
                ref_cache[text] = None
            else:
                atoms = pqr_ref.parse(r.pqr_text)
                bm = {(a.res_name, a.chain_id, a.res_seq, a.name):
                      (a.ffcharge, a.radius) for a in r.bm.atoms}
                ref_cache[text] = ({}, atoms, bm)
                for a in atoms:
                    ref_cache[text][0].setdefault(_pqr_key(a), []).append(
                        (a["qs"], a["rs"]))
        return ref_cache[text]

    for lig in case["ligands"]:
        spec = COMPLEX_LIGANDS[lig]
        mol = load_mol(spec)
        ident = tuple(range(mol.n))
        for naming in case["namings"]:
            if naming.startswith("ff-entry:"):
                names = entry_names(mol, ff, naming.split(":", 1)[1])
            else:
                names = make_names(mol, naming)
            one = {"mode": "complex", "ff": ff, "extras": extras,
                   "ligands": [lig], "namings": [naming]}
            for k in ("mol2_resname", "lig_resname", "copies", "serial0",
                      "pka"):
                if k in case:
                    one[k] = case[k]
            tag = f"{naming}"
            mol2 = write_mol2(mol, ident, names,
                              "asis" if mol.orig_names else "sorted",
                              resname=case.get("mol2_resname", lig_res))
            ref = reference(mol, names)
            if ref is None:
                rec.event("complex:reference-run-aborts")
                continue
            ref_lines, _ref_atoms, ref_bm = ref
            # ligand parameters straight from the MOL2 machinery
            try:
                q, rad, _fc, _ty = evaluate(mol2, ident, names)
            except Exception as exc:
                rec.violation(f"C16/exception/{type(exc).__name__}/complex",
                              {"ligand": lig, "message": str(exc)[:200]}, one)
                continue
            text = complex_pdb(mol, names, extras, lig_res=lig_res,
                               copies=copies,
                               serial0=case.get("serial0", 100))
            captured = []

            def grab(args, kwargs):
                captured.append(kwargs.get("biomolecule",
                                           args[1] if len(args) > 1 else None))

            with pipeline.monitor(main, "non_trivial", before=grab):
                r = pipeline.run(text, opts + ["--ligand=@lig.mol2"],
                                 files={"lig.mol2": mol2})
            rec.res["evals"] += 1
            rec.res["nontrivial"].append(
                f"complex:{ff}:{lig}:{naming}:{'+'.join(extras) or 'none'}"
                f":{lig_res}x{copies}:{case.get('mol2_resname', '=')}"
                + (":pka" if case.get("pka") else ""))
            detail = {"ligand": lig, "naming": naming, "extras": extras,
                      "ff": ff, "ligand_atom_names": names}
            # which non-ligand atoms carry parameters they do not carry in
            # the reference run (inspect the model: works for aborted runs)
            polluted = {}
            bm = captured[-1] if captured else None
            if bm is not None:
                for a in bm.atoms:
                    if a.res_name == lig_res and a.res_seq in lig_seqs:
                        continue
                    key = (a.res_name, a.chain_id, a.res_seq, a.name)
                    if key not in ref_bm:
                        continue  # atoms added with other names: compare PQR
                    rq, rr = ref_bm[key]
                    same = (_feq(a.ffcharge, rq) and _feq(a.radius, rr))
                    if not same:
                        polluted.setdefault(_kind(a.res_name, lig_res), []).append(
                            [list(map(str, key)), [rq, rr],
                             [a.ffcharge, a.radius]])
            for kind, items in sorted(polluted.items()):
                rec.event(f"complex:ligand-parameters-on-{kind}:names={tag}")
                rec.violation(
                    f"C16/complex/ligand-parameters-on-{kind}",
                    dict(detail, atoms=items[:6],
                         run_outcome=("written" if r.ok else
                                      f"aborted:{r.exc[0]}"),
                         pdb=text, mol2=mol2),
                    dict(one, extras=_minimal_extras(extras, [kind])))
            if not r.ok:
                cause = ("+".join(sorted(polluted)) if polluted
                         else "no-foreign-atom-touched")
                rec.event(f"complex:aborted:{cause}:names={tag}")
                rec.violation(
                    f"C16/complex/run-aborts:{r.exc[0]}",
                    dict(detail, message=r.exc[1], touched=cause,
                         critical=[m for l, _n, m in r.warnings
                                   if l == "CRITICAL"][:3],
                         pdb=text, mol2=mol2),
                    dict(one, extras=_minimal_extras(extras,
                                                     sorted(polluted)[:1])))
                rec.event("complex:aborted")
                continue
            rec.event("complex:completed")
            listed = sum(1 for a in (r.missed or [])
                         if a.res_name == lig_res and a.res_seq in lig_seqs)
            if listed:
                rec.event("complex:written-ligand-atoms-also-listed-as-"
                          "unassigned-in-header", listed)
            atoms = pqr_ref.parse(r.pqr_text)
            by_name = {}
            others = {}
            for a in atoms:
                if a["res_name"] == lig_res and a["res_seq"] in lig_seqs:
                    by_name.setdefault((a["res_seq"], a["name"]),
                                       []).append(a)
                else:
                    others.setdefault(_pqr_key(a), []).append(
                        (a["qs"], a["rs"]))
            for seq, i in itertools.product(sorted(lig_seqs), range(mol.n)):
                got = by_name.pop((seq, names[i]), [])
                if len(got) == 0:
                    rec.violation("C16/complex/ligand-atom-not-written",
                                  dict(detail, atom=names[i]), one)
                    continue
                if len(got) > 1:
                    rec.violation("C16/complex/ligand-atom-written-twice",
                                  dict(detail, atom=names[i], n=len(got)), one)
                for a in got:
                    if abs(a["charge"] - q[i]) > PQR_TOL or \
                            abs(a["radius"] - rad[i]) > PQR_TOL:
                        rec.violation(
                            "C16/complex/ligand-atom-parameters-differ-from-"
                            "mol2",
                            dict(detail, atom=names[i],
                                 written=[a["charge"], a["radius"]],
                                 mol2=[q[i], rad[i]]), one)
                    exp = ref_radius(mol.types[i])
                    if abs(a["radius"] - exp) > PQR_TOL:
                        rec.violation(
                            f"C16/complex/radius/{mol.types[i]}",
                            dict(detail, atom=names[i], written=a["radius"],
                                 documented=exp), one)
            for (_seq, nm), got in by_name.items():
                rec.violation(
                    "C16/complex/unknown-atom-in-ligand-residue",
                    dict(detail, atom=nm), one)
            rec.event("complex:ligand-atoms-checked", mol.n * copies)
            # non-ligand lines: identical multiset to the reference run
            for key in sorted(set(others) | set(ref_lines)):
                a, b = sorted(others.get(key, [])), sorted(
                    ref_lines.get(key, []))
                if a == b:
                    continue
                kind = _kind(key[0], lig_res)
                if len(a) > len(b) and not b:
                    what = f"unparameterised-{kind}-atom-written"
                elif len(a) > len(b):
                    what = f"{kind}-atom-written-twice"
                elif len(a) < len(b):
                    what = f"{kind}-atom-lost"
                else:
                    what = f"written-parameters-of-{kind}-changed"
                rec.violation(
                    f"C16/complex/{what}",
                    dict(detail, atom=list(map(str, key)), with_ligand=a,
                         reference=b, pdb=text, mol2=mol2), one)
            rec.event("complex:non-ligand-lines-checked",
                      sum(len(v) for v in others.values()))


def _minimal_extras(extras, kinds):
    """Smallest hetero subset of this cell that still contains one group of
    each touched kind (every single-group cell is enumerated as well, so the
    reduced case is itself a member of the explored space)."""
    pick = {"water": ("W1", "W3"), "foreign-hetero-group": ("XYZ", "XYQ"),
            "ion": ("ZN",)}
    out = []
    for kind in kinds:
        for e in pick.get(kind, ()):
            if e in extras:
                out.append(e)
                break
    return out if out else list(extras)


def _feq(a, b):
    if a is None or b is None:
        return a is None and b is None
    return abs(a - b) <= 1e-12


# ---------------------------------------------------------------------------
# harness entry points
# ---------------------------------------------------------------------------
def run_case(case):
    rec = Recorder()
    mode = case["mode"]
    if mode == "mols":
        for spec in case["mols"]:
            check_molecule(spec, rec,
                           chunk=(case.get("chunk", 0), case.get("nchunks", 1)),
                           stride=case.get("stride", 1),
                           rotnames=case.get("rotnames"))
    elif mode == "one":
        check_molecule(case["mol"], rec,
                       only=(case["order"], case["naming"], case["bondmode"]))
    elif mode == "unsupported":
        check_unsupported(rec)
    elif mode == "complex":
        check_complex_cell(case, rec)
    else:
        raise ValueError(mode)
    return rec.res


def _cost(desc, rotnames=None):
    """Rough number of evaluations for a descriptor (for bundling)."""
    inc = _incident(desc)
    n = len(desc["h"]) + sum(
        hcount(t, [(l, desc["h"][j]) for l, j in inc[i]])
        for i, t in enumerate(desc["h"]))
    norders = math.factorial(n) if n <= FULL_PERM_LIMIT else 2 * n
    k = 1 if (rotnames == "all" or (
        rotnames == "six" and n == FULL_PERM_LIMIT)) else 3
    return k * norders * (1 + n / 8.0)


def _bundle(descs, budget=1500.0, rotnames=None):
    cases, cur, cost = [], [], 0.0

    def flush():
        case = {"mode": "mols", "mols": list(cur)}
        if rotnames:
            case["rotnames"] = rotnames
        cases.append(case)

    for d in descs:
        c = _cost(d, rotnames)
        if cur and cost + c > budget:
            flush()
            cur.clear()
            cost = 0.0
        cur.append(d)
        cost += c
    if cur:
        flush()
    return cases


def _subsets(items):
    out = []
    for k in range(len(items) + 1):
        out += [list(c) for c in itertools.combinations(items, k)]
    return out


QUICK_BLOCKS = ("rings3", "ar6", "kek", "ar6sub")


def _block(name):
    if name == "rings3":
        acyclic = {desc_label(d) for d in generic_molecules(3, False)}
        return [d for d in generic_molecules(3, True)
                if desc_label(d) not in acyclic]
    if name == "ar6":
        return ring_family("ar6")
    if name == "kek":
        return ring_family("kek6") + ring_family("kek5")
    if name == "ar6sub":
        return ring_family("ar6sub")
    raise ValueError(name)


def enumerate_cases(tier, seed):
    cases = [{"mode": "unsupported"}]
    if tier == "quick":
        descs = []
        for n in (1, 2, 3):
            descs += generic_molecules(n, False)
        descs += _block(QUICK_BLOCKS[seed % len(QUICK_BLOCKS)])
        cases += _bundle(descs, 1500.0, rotnames="six")
    else:
        descs = []
        for n in (1, 2, 3):
            descs += generic_molecules(n, True)
        cases += _bundle(descs, 6000.0)
        cases += _bundle(generic_molecules(4, True), 6000.0, rotnames="all")
        descs = []
        for fam in ("ar6", "kek6", "kek5", "ar6sub", "sat5", "sat6"):
            descs += ring_family(fam)
        cases += _bundle(descs, 6000.0)
    for f in bundled_files():
        n = load_mol({"file": f}).n
        stride = 8 if (tier == "quick" and n > 60) else 1
        if n > 60:
            nchunks = 4 if tier == "quick" else 24
        elif n > 30:
            nchunks = 8
        else:
            nchunks = 1
        for c in range(nchunks):
            case = {"mode": "mols", "mols": [{"file": f}]}
            if nchunks > 1:
                case.update(chunk=c, nchunks=nchunks)
            if stride > 1:
                case["stride"] = stride
            if n > 60:
                case["rotnames"] = "all"
            cases.append(case)
    subsets = _subsets(EXTRAS)
    if tier == "quick":
        ligs = ["methanol", "methylammonium", "acetate", "ethanol.mol2"]
        for k, ex in enumerate(subsets):
            cases.append({"mode": "complex", "ff": "AMBER", "extras": ex,
                          "ligands": ligs, "namings": list(COMPLEX_NAMINGS)})
            if (k + seed) % 2 == 0:
                cases.append({"mode": "complex", "ff": "PARSE", "extras": ex,
                              "ligands": ligs[:2],
                              "namings": list(COMPLEX_NAMINGS)})
    # MOL2 substructure named differently from the PDB residue (the bundled
    # ligands: UNK vs KNI): the documented fall-back matches by atom names.
    # Only hetero groups whose names cannot be confused with the ligand's are
    # added, so "the ligand's atoms" stays unambiguous.
    for ex in _subsets(("W1", "QQQ", "ZN")):
        cases.append({"mode": "complex", "ff": "AMBER", "extras": ex,
                      "ligands": ["methanol", "acetate"],
                      "namings": ["private", "elem-index"],
                      "mol2_resname": "UNK"})
    # residue names ending in a digit, several copies of the ligand, and a
    # ligand named like (and with the atom names of) a hetero group the
    # force field has its own entry for
    for ex in _subsets(("W1", "XYZ", "XYQ")):
        cases.append({"mode": "complex", "ff": "AMBER", "extras": ex,
                      "ligands": ["methanol", "acetate"],
                      "namings": ["water-like", "elem-index"],
                      "lig_resname": "PG4"})
        cases.append({"mode": "complex", "ff": "AMBER", "extras": ex,
                      "ligands": ["methanol", "methylammonium"],
                      "namings": ["private", "elem-index"], "copies": 2})
    for ex in ([], ["W1"], ["W1", "XYZ", "ZN"]):
        cases.append({"mode": "complex", "ff": "AMBER", "extras": ex,
                      "ligands": ["methanol", "acetate"],
                      "namings": ["elem-index", "private"], "serial0": 0})
    # the same complexes through the pKa route
    for ex in ([], ["W1"], ["W1", "XYZ", "ZN"]):
        for ff in ("AMBER", "PARSE"):
            cases.append({"mode": "complex", "ff": ff, "extras": ex,
                          # bundled ligands only: PROPKA inspects the
                          # ligand's geometry, and the grammar molecules
                          # are laid out schematically (collinear atoms)
                          "ligands": ["ethanol.mol2", "acetate.mol2"],
                          "namings": ["elem-index", "private"], "pka": True})
    for ff, entry in FF_HETERO_ENTRIES:
        for ex in ([], ["W1"], ["W1", "XYQ"]):
            cases.append({"mode": "complex", "ff": ff, "extras": ex,
                          "ligands": ["methanol", "acetate"],
                          "namings": [f"ff-entry:{entry}", "private"],
                          "lig_resname": entry})
    if tier != "quick":
        ligs = list(COMPLEX_LIGANDS)
        for ff in ("AMBER", "PARSE", "CHARMM"):
            for ex in subsets:
                for half in (ligs[:3], ligs[3:]):
                    cases.append({"mode": "complex", "ff": ff, "extras": ex,
                                  "ligands": half,
                                  "namings": list(COMPLEX_NAMINGS)})
    return cases


def run(ctx):
    """Cases differ in cost by three orders of magnitude (one MOL2 parse of a
    2-atom molecule vs a block of whole-program runs): hand them to the pool
    one at a time so that no worker is left with a long tail."""
    ctx.explore(enumerate_cases(ctx.tier, ctx.seed), chunksize=1)


def supported_types_of_implementation():
    """Types usable end to end according to the implementation's tables."""
    from pdb2pqr.ligand import NONBONDED_BY_TYPE, RADII, peoe

    out = []
    for t in NONBONDED_BY_TYPE:
        up = t.upper()
        if up == "O.3":
            up = "O.OH"
        if up not in peoe.POLY_TERMS:
            continue
        el = t.split(".")[0].upper()
        if any(k in d for d in (RADII["zap9"], RADII["bondi"])
               for k in (t, el)):
            out.append(t)
    return sorted(out)


def finish(ctx):
    impl = supported_types_of_implementation()
    ctx.extra["type_alphabet"] = TYPES
    ctx.extra["implementation_supported_types"] = impl
    ctx.extra["types_not_enumerated"] = sorted(set(impl) - set(TYPES) - {"H"})
    ctx.extra["bond_alphabet"] = list(LABELS)
    ctx.extra["naming_schemes"] = list(NAMINGS) + ["original (bundled)"]
    ctx.extra["complex"] = {"extras": list(EXTRAS),
                            "ligand_namings": list(COMPLEX_NAMINGS),
                            "ligands": sorted(COMPLEX_LIGANDS)}
    ctx.extra["tolerances"] = {"charge": TOL, "pqr_columns": PQR_TOL}
    missing = sorted(set(TYPES) - set(impl))
    if missing:
        ctx.violation("C16/alphabet/type-not-supported-by-implementation:"
                      + ",".join(missing), {"mode": "unsupported"}, missing)
