"""C18 - converting an OpenDX grid to Gaussian cube preserves the data.

Stateless exhaustive exploration of the real converter (io.read_pqr +
io.read_dx + io.write_cube, and main.dx_to_cube end to end) over a lattice of
grid shapes x origins x spacings x value patterns x atom lists x file layouts.
The DX and PQR texts are generated here (APBS' OpenDX writer layout, PQR in
fixed-column and whitespace layouts); the written cube is read back with an
independent parser of the Gaussian cube format and compared, in exact decimal
arithmetic, with the decimal numbers that were put into the DX / PQR text.
"""

import contextlib
import io as _stdio
import itertools
import re
import sys
from decimal import Decimal

from .. import engine

PROPERTY = "C18"
LEVEL = "exploration"
RULE = (
    "case = (grid shape, value pattern) bundling every combination of origin "
    "x spacing x atom list (0-3 atoms; fixed-column and whitespace PQR "
    "layouts) x DX file style (APBS writer with comment header and trailing "
    "blanks / bare), each converted through io.read_pqr + io.read_dx + "
    "io.write_cube, plus one block per shape end to end through "
    "main.dx_to_cube; values are an injective function of (i,j,k) so any "
    "reordering, loss or duplication is visible.  non-trivial = distinct "
    "generated (DX text, PQR text, driver) inputs whose grid has at least two "
    "values or whose atom list is not empty"
)
ASSUMPTIONS = [
    "OpenDX input has the layout APBS writes (object 1 gridpositions counts, "
    "origin, three delta lines, object 2 gridconnections, object 3 array "
    "header, values three per line with a short last line, attribute / "
    "object / component trailer, optional '# ' comment lines); blank lines, "
    "binary DX, '#text' comments without a blank, nan/inf values are not "
    "generated",
    "cube format: two comment lines; natoms + origin; three lines of voxel "
    "count + axis vector; |natoms| atom lines (number, charge, x, y, z); one "
    "extra record iff natoms < 0; then whitespace-separated values, x outer, "
    "z inner; line breaks inside the value block are not significant",
    "signed-count convention: a negative voxel count declares lengths in "
    "angstrom (the unit of APBS DX grids and PQR coordinates, so numbers must "
    "be equal as printed), a positive count declares bohr (numbers would "
    "have to be converted with a0 = 0.52917..0.52918 A); the sign must be the "
    "same on all three axes of a file and agree with the unit of the "
    "lengths in that file",
    "'to the printed precision' = within half a unit of the last digit the "
    "cube prints for that number (ties allowed), compared against the exact "
    "decimal written into the DX / PQR text; applied to origin, spacings, "
    "atom coordinates and values alike",
    "atoms are matched by coordinates, any order; the first field of a cube "
    "atom line must be the atom's PQR serial or its atomic number (it says "
    "which atom is listed), the second (charge) is only recorded",
    "PQR atoms keep to field widths that leave a blank between fixed "
    "columns and carry no insertion codes (reading those is the PQR "
    "reader's property, not this one)",
]
BOUND = {
    "quick": "shapes {1..4}^3 + (5,1,1),(7,1,1),(1,1,6),(2,3,7),(6,6,6) "
    "[69 shapes, N mod 6 and N mod 3 all covered] x 4 value patterns (one with other legal number spellings; +1 "
    "seed-chosen extra pattern) x 3 origins x 3 spacings (one with skewed axes) x 11 atom lists (digit chain ids, touching fixed-column fields) x 2 "
    "DX styles through the API; 7 atom lists x 2 patterns per shape through "
    "main.dx_to_cube",
    "thorough": "shapes {1..6}^3 + (7,1,1),(2,3,7),(1,7,1),(7,7,7) [220 "
    "shapes] x 6 value patterns x 5 origins x 5 spacings (incl. skewed axes) "
    "x 7 atom lists x 2 DX styles through the API; 7 atom lists per (shape, "
    "pattern) through main.dx_to_cube",
}

# ---------------------------------------------------------------------------
# the lattice
# ---------------------------------------------------------------------------
EXTRA_SHAPES_QUICK = [(5, 1, 1), (7, 1, 1), (1, 1, 6), (2, 3, 7), (6, 6, 6)]
EXTRA_SHAPES_THOROUGH = [(7, 1, 1), (2, 3, 7), (1, 7, 1), (7, 7, 7)]

# numbers are kept as the decimal *strings* that are printed into the files
ORIGINS = {
    "zero": ("0.000000e+00", "0.000000e+00", "0.000000e+00"),
    "neg": ("-3.299750e+01", "-1.712500e+01", "-1.234000e-03"),
    "1e3": ("1.000000e+03", "-1.000000e+03", "1.000500e+03"),
    # thorough
    "sub": ("1.234568e-03", "-9.999996e-01", "4.999995e-07"),
    "huge": ("1.234568e+05", "-9.876543e+04", "1.000000e+04"),
}
_Z = "0.000000e+00"
SPACINGS = {
    "0.5": (("5.000000e-01", _Z, _Z), (_Z, "5.000000e-01", _Z),
            (_Z, _Z, "5.000000e-01")),
    "1.25": (("1.250000e+00", _Z, _Z), (_Z, "1.250000e+00", _Z),
             (_Z, _Z, "1.250000e+00")),
    "aniso": (("3.750000e-01", _Z, _Z), (_Z, "1.015625e+00", _Z),
              (_Z, _Z, "2.000000e+00")),
    "skew": (("5.000000e-01", "1.000000e-01", _Z),
             (_Z, "7.500000e-01", "-2.000000e-01"),
             ("3.000000e-01", _Z, "1.250000e+00")),
    "fine": (("1.000000e-03", _Z, _Z), (_Z, "2.500000e-04", _Z),
             (_Z, _Z, "1.234567e-02")),
}
QUICK_ORIGINS = ["zero", "neg", "1e3"]
QUICK_SPACINGS = ["0.5", "aniso", "skew"]
THOROUGH_ORIGINS = QUICK_ORIGINS + ["sub", "huge"]
THOROUGH_SPACINGS = QUICK_SPACINGS + ["1.25", "fine"]

QUICK_PATTERNS = ["mag", "index", "round", "spelled"]
EXTRA_PATTERNS = ["extreme", "ulp", "plain"]
# "tailless": the data section ends the file - no attribute / component
# trailer and no newline after the last value
STYLES = ["apbs", "bare", "tailless"]

# (record, serial, name, resname, chain, resseq, x, y, z, charge, radius)
ATOMS = [
    ("ATOM", 1, "N", "THR", "", 1, "46.148", "16.581", "2.104", "-0.3200",
     "2.0000"),
    ("ATOM", 2, "CA", "THR", "A", 1, "-4.862", "15.936", "-12.105", "0.3300",
     "2.0000"),
    ("HETATM", 1234, "HH11", "ARG", "B", 215, "0.000", "-0.500", "100.250",
     "0.4600", "0.0000"),
    # chain ids may be digits
    ("ATOM", 77, "O", "HOH", "2", 5, "7.250", "-3.125", "9.500", "-0.8340",
     "1.7683"),
    # fields that touch in the fixed-column layout pdb2pqr itself writes
    # (chain | four-digit number, x | y)
    ("ATOM", 78, "CA", "ALA", "A", 1000, "-100.000", "-100.000", "5.000",
     "0.1000", "1.9080"),
]
ATOM_LISTS = [(0, "fixed")] + [
    (n, lay) for n in (1, 2, 3, 4, 5) for lay in ("fixed", "ws")
]

_EXP_MAG = [-30, -20, -10, -5, -3, -1, 0, 1, 2, 3, 5]
_EXP_EXTREME = [-300, -150, -100, -99, -31, 6, 99, 100, 150, 300]
_EXP_ROUND = [-7, 0, 4]


def _code(i, j, k):
    return i * 49 + j * 7 + k  # injective for 0 <= i,j,k <= 6


def value_string(pattern, i, j, k):
    """Decimal text of the grid value at (i,j,k): injective in (i,j,k) for
    every pattern, and distinct values differ by at least one unit of the
    sixth significant digit."""
    c = _code(i, j, k)
    sign = "-" if (i + j + k) % 2 else ""
    if pattern == "mag":
        m = 1000 + 26 * c  # 1.000 .. 9.892, distinct per code
        return f"{sign}{m // 1000}.{m % 1000:03d}000e{_EXP_MAG[c % 11]:+03d}"
    if pattern == "extreme":
        m = 1000 + 26 * c
        e = _EXP_EXTREME[c % 10]
        return f"{sign}{m // 1000}.{m % 1000:03d}000e{e:+03d}"
    if pattern == "index":
        q = 25 * c  # c * 0.25, first value exactly zero
        s = "-" if c % 3 == 1 else ""
        return "%s%.6e" % (s, q / 100.0)
    if pattern == "round":
        # seventh digit 5: ties of the six-digit print; two carries into the
        # exponent
        if c == 1:
            return "9.999995e+00"
        if c == 7:
            return "-9.999996e-03"
        m = 100000 + 2600 * c + 17 * (c % 7)
        return f"{sign}{m // 100000}.{m % 100000:05d}5e{_EXP_ROUND[c % 3]:+03d}"
    if pattern == "ulp":
        # neighbours differ by exactly one unit of the printed last digit
        m = 100000 + c
        return f"{sign}{m // 100000}.{m % 100000:05d}0e+00"
    if pattern == "spelled":
        # other legal spellings of a number at the start of a data line:
        # explicit plus sign (C %+e), no digit before the point
        if c % 3 == 0:
            return "+%.6e" % (0.125 * (c + 1))
        if c % 3 == 1:
            return f"-.{(c % 97) + 1:02d}5"
        return f".{(c % 89) + 1:02d}25"
    if pattern == "plain":
        # non-exponent notation as other DX writers produce
        if c == 0:
            return "0"
        if c % 4 == 0:
            return f"{sign}{c}"
        if c % 4 == 1:
            return f"{sign}{c}.5"
        if c % 4 == 2:
            return f"{sign}0.{c:04d}"
        return f"{sign}{c}.25"
    raise ValueError(pattern)


def grid_value_strings(pattern, shape):
    nx, ny, nz = shape
    return [
        value_string(pattern, i, j, k)
        for i in range(nx) for j in range(ny) for k in range(nz)
    ]


# ---------------------------------------------------------------------------
# input generators (independent of the implementation)
# ---------------------------------------------------------------------------
def dx_text(shape, origin, deltas, values, style):
    nx, ny, nz = shape
    apbs = style == "apbs"
    out = []
    if apbs:
        out += ["# Data from 3.4.1", "# ", "# POTENTIAL (kT/e)", "# "]
    out.append(f"object 1 class gridpositions counts {nx} {ny} {nz}")
    out.append("origin " + " ".join(origin))
    for d in deltas:
        out.append("delta " + " ".join(d))
    out.append(f"object 2 class gridconnections counts {nx} {ny} {nz}")
    out.append(
        f"object 3 class array type double rank 0 items {len(values)} "
        "data follows"
    )
    for a in range(0, len(values), 3):
        row = values[a:a + 3]
        # APBS prints "%12.6e " per value, i.e. a blank before the newline
        out.append("".join(v + " " for v in row) if apbs else " ".join(row))
    if style == "tailless":
        return "\n".join(out)
    out.append('attribute "dep" string "positions"')
    out.append('object "regular positions regular connections" class field')
    out.append('component "positions" value 1')
    out.append('component "connections" value 2')
    out.append('component "data" value 3')
    return "\n".join(out) + "\n"


def pqr_line(atom, layout):
    rec, serial, name, resn, chain, seq, x, y, z, q, r = atom
    if layout == "ws":
        f = [rec, str(serial), name, resn]
        if chain:
            f.append(chain)
        f += [str(seq), x, y, z, q, r]
        return " ".join(f)
    nm = name if len(name) == 4 else " " + name.ljust(3)
    return (
        f"{rec:<6}{serial:>5} {nm} {resn:>3} {chain or ' '}{seq:>4}    "
        f"{x:>8}{y:>8}{z:>8}{q:>8}{r:>7}"
    )


def pqr_text(natoms, layout):
    out = [
        "REMARK   1 PQR file generated by PDB2PQR",
        "REMARK   1",
        "REMARK   6 Total charge on this biomolecule: 0.0000 e",
        "REMARK   6",
    ]
    for atom in ATOMS[:natoms]:
        out.append(pqr_line(atom, layout))
    out += ["TER", "END"]
    return "\n".join(out) + "\n"


# ---------------------------------------------------------------------------
# independent cube reader
# ---------------------------------------------------------------------------
_NUM = re.compile(r"^[+-]?(\d+\.?\d*|\.\d+)([EeDd][+-]?\d+)?$")
_INT = re.compile(r"^[+-]?\d+$")


class CubeFormatError(Exception):
    def __init__(self, where, what):
        super().__init__(f"{where}: {what}")
        self.where = where
        self.what = what


def _dec(tok, where):
    if not _NUM.match(tok):
        raise CubeFormatError(where, f"not a number: {tok!r}")
    return Decimal(tok.replace("D", "E").replace("d", "E"))


def _int(tok, where):
    if not _INT.match(tok):
        raise CubeFormatError(where, f"not an integer: {tok!r}")
    return int(tok)


def parse_cube(text):
    """Gaussian cube -> dict of raw tokens / Decimals.  Header records are
    line oriented, the value block is free format."""
    lines = text.split("\n")
    if lines and lines[-1] == "":
        lines.pop()
        trailing_newline = True
    else:
        trailing_newline = False
    if len(lines) < 6:
        raise CubeFormatError("header", f"only {len(lines)} lines")
    cube = {"comments": lines[:2], "trailing_newline": trailing_newline}
    t = lines[2].split()
    if len(t) not in (4, 5):
        raise CubeFormatError("natoms-line", f"{len(t)} fields: {lines[2]!r}")
    cube["natoms"] = _int(t[0], "natoms-line")
    cube["origin"] = [_dec(w, "natoms-line") for w in t[1:4]]
    nval = _int(t[4], "natoms-line") if len(t) == 5 else 1
    cube["counts"] = []
    cube["axes"] = []
    for a in range(3):
        t = lines[3 + a].split()
        if len(t) != 4:
            raise CubeFormatError(
                "axis-line", f"{len(t)} fields: {lines[3 + a]!r}")
        cube["counts"].append(_int(t[0], "axis-line"))
        cube["axes"].append([_dec(w, "axis-line") for w in t[1:4]])
    pos = 6
    cube["atoms"] = []
    # diagnosis only: records after the header that look like atom records
    looks = 0
    for ln in lines[6:]:
        t = ln.split()
        if len(t) != 5 or not _INT.match(t[0]):
            break
        looks += 1
    hint = (f" (header declares {cube['natoms']} atoms, {looks} atom-like "
            "records follow the header)")
    for _ in range(abs(cube["natoms"])):
        if pos >= len(lines):
            raise CubeFormatError(
                "atom-block", "file ends inside atom block" + hint)
        t = lines[pos].split()
        if len(t) != 5:
            raise CubeFormatError(
                "atom-block", f"{len(t)} fields: {lines[pos]!r}" + hint)
        cube["atoms"].append({
            "number": t[0],
            "charge": _dec(t[1], "atom-block"),
            "xyz": [_dec(w, "atom-block") for w in t[2:5]],
        })
        pos += 1
    toks = []
    per_line = []
    for ln in lines[pos:]:
        w = ln.split()
        per_line.append(len(w))
        toks.extend(w)
    nset = 1
    if cube["natoms"] < 0:
        # orbital cubes: "m id1 .. idm" precedes the values, m values/voxel
        if not toks:
            raise CubeFormatError("dset-record", "missing (natoms < 0)")
        nset = _int(toks[0], "dset-record")
        toks = toks[1 + nset:]
    cube["nval"] = nval * nset
    cube["atom_like_records"] = looks
    cube["value_tokens"] = toks
    cube["values"] = [_dec(w, "value-block") for w in toks]
    cube["values_per_line"] = per_line
    return cube


# ---------------------------------------------------------------------------
# oracle
# ---------------------------------------------------------------------------
_HALF = Decimal("0.5")
_A0_LO = Decimal("0.52917")
_A0_HI = Decimal("0.52918")


def _ulp(d):
    return Decimal(1).scaleb(d.as_tuple().exponent)


def same_printed(got, want):
    """got (as printed in the cube) equals want to got's printed precision."""
    return abs(got - want) <= _HALF * _ulp(got)


def same_printed_bohr(got, want_angstrom):
    lo = want_angstrom / _A0_HI
    hi = want_angstrom / _A0_LO
    if lo > hi:
        lo, hi = hi, lo
    h = _HALF * _ulp(got)
    return lo - h <= got <= hi + h


def _digits(tok):
    m = re.match(r"^[+-]?\d*\.?(\d*)", tok)
    return len(m.group(1)) if m else -1


_AXIS_ORDERS = {
    "x-outer,z-inner": (0, 1, 2),
    "x-outer,y-inner": (0, 2, 1),
    "y-outer,z-inner": (1, 0, 2),
    "y-outer,x-inner": (1, 2, 0),
    "z-outer,y-inner": (2, 0, 1),
    "z-outer,x-inner": (2, 1, 0),
}


def _reordered(pattern, shape, order):
    rng = [range(shape[a]) for a in order]
    out = []
    for t in itertools.product(*rng):
        ijk = [0, 0, 0]
        for a, v in zip(order, t):
            ijk[a] = v
        out.append(Decimal(value_string(pattern, *ijk)))
    return out


def classify_value_mismatch(pattern, shape, got, want):
    """Name the class of a same-length value mismatch."""
    def eq(seq):
        return all(same_printed(g, w) for g, w in zip(got, seq))

    for name, order in _AXIS_ORDERS.items():
        if order != (0, 1, 2) and eq(_reordered(pattern, shape, order)):
            return f"order={name}"
    left = list(want)
    for g in got:
        for idx, w in enumerate(left):
            if same_printed(g, w):
                del left[idx]
                break
        else:
            return "wrong-value"
    return "order=other-permutation"


def check_cube(text, shape, origin, deltas, pattern, natoms):
    """Compare a cube text against what went into the DX / PQR files.
    Returns (violations [(sig, detail)], events [str])."""
    viol, ev = [], []
    nx, ny, nz = shape
    n = nx * ny * nz
    try:
        cube = parse_cube(text)
    except CubeFormatError as exc:
        return [(f"C18/cube-format/{exc.where}", {"error": str(exc)})], ev

    # --- counts and their sign ------------------------------------------
    for a, axis in enumerate("xyz"):
        if abs(cube["counts"][a]) != shape[a]:
            viol.append((f"C18/header/count/axis={axis}",
                         {"got": cube["counts"][a], "dx": shape[a]}))
    signs = {c < 0 for c in cube["counts"]}
    if len(signs) != 1:
        viol.append(("C18/header/count-sign-mixed",
                     {"counts": cube["counts"]}))
        bohr = None
    else:
        bohr = not signs.pop()
        ev.append("count-sign=" + ("positive(bohr)" if bohr else
                                   "negative(angstrom)"))

    unit_name = {None: "?", True: "bohr", False: "angstrom"}[bohr]

    def length_ok(got, want, other=False):
        """A cube length equals the DX / PQR length in the unit declared by
        the count sign (other=True: in the unit it does not declare)."""
        if bohr is None:
            return (not other) and (same_printed(got, want)
                                    or same_printed_bohr(got, want))
        if bohr != other:
            return same_printed_bohr(got, want)
        return same_printed(got, want)

    # failures of length comparisons: (sig, detail, holds in the other unit)
    lfail = []

    def cmp_lengths(sig, got_list, want_list, extra):
        want_dec = [Decimal(w) for w in want_list]
        if all(length_ok(g, w) for g, w in zip(got_list, want_dec)):
            return
        alt = all(length_ok(g, w, True) for g, w in zip(got_list, want_dec))
        detail = {"got": [str(g) for g in got_list], "dx": list(want_list),
                  "declared_unit": unit_name}
        detail.update(extra)
        lfail.append((sig, detail, alt))

    # --- origin / spacings ----------------------------------------------
    cmp_lengths("C18/header/origin", cube["origin"], origin, {})
    for a, axis in enumerate("xyz"):
        cmp_lengths("C18/header/spacing", cube["axes"][a], deltas[a],
                    {"axis": axis})

    # --- atoms -----------------------------------------------------------
    if cube["natoms"] < 0:
        ev.append("natoms-sign=negative")
    if abs(cube["natoms"]) != natoms:
        viol.append(("C18/atoms/natoms-header",
                     {"got": cube["natoms"], "pqr_atoms": natoms}))
    want_atoms = ATOMS[:natoms]

    def match_atoms(other):
        free = list(range(len(cube["atoms"])))
        match, missing = [], []
        for wi, atom in enumerate(want_atoms):
            xyz = [Decimal(s) for s in atom[6:9]]
            hit = [gi for gi in free if all(
                length_ok(g, w, other)
                for g, w in zip(cube["atoms"][gi]["xyz"], xyz))]
            if hit:
                free.remove(hit[0])
                match.append((wi, hit[0]))
            else:
                missing.append(wi)
        return match, missing, free

    match, missing, free = match_atoms(False)
    if missing or free:
        m2, miss2, free2 = match_atoms(True)
        alt = bool(m2) and not miss2 and not free2
        listed = [[str(v) for v in a["xyz"]] for a in cube["atoms"]]
        for wi in missing:
            lfail.append(("C18/atoms/missing",
                          {"pqr_atom": list(want_atoms[wi]),
                           "cube_atoms": listed,
                           "declared_unit": unit_name}, alt))
        if free:
            lfail.append(("C18/atoms/extra-or-duplicate",
                          {"pqr_atoms": [list(a[6:9]) for a in want_atoms],
                           "unmatched_cube_atoms": [listed[gi] for gi in free],
                           "declared_unit": unit_name}, alt))
    if match:
        ev.append("atom-order=" + ("pqr-order" if all(
            w == g for w, g in match) else "permuted"))
        first = {("serial" if cube["atoms"][g]["number"]
                  == str(want_atoms[w][1]) else "other") for w, g in match}
        ev.append("atom-field1=" + "/".join(sorted(first)))
        # the first field says which atom the record lists: the PQR serial
        # (what pdb2pqr writes) or the element's atomic number (the cube
        # convention) - a number that is neither lists no atom of the PQR
        for w, g in match:
            num = cube["atoms"][g]["number"]
            elem = {"N": "7", "C": "6", "H": "1", "O": "8"}.get(
                want_atoms[w][2][0])
            if num not in (str(want_atoms[w][1]), elem):
                viol.append(("C18/atoms/first-field-names-no-pqr-atom",
                             {"cube_field": num,
                              "pqr_serial": want_atoms[w][1],
                              "atom": want_atoms[w][2]}))
                break
        chg = {("pqr-charge" if same_printed(
            cube["atoms"][g]["charge"], Decimal(want_atoms[w][9]))
            else "other") for w, g in match}
        ev.append("atom-field2=" + "/".join(sorted(chg)))
    if lfail and all(f[2] for f in lfail):
        # every length is right, but only in the unit the sign of the voxel
        # counts does not declare: one failure class, not one per field
        viol.append(("C18/header/count-sign-vs-length-unit",
                     {"counts": cube["counts"], "declared_unit": unit_name,
                      "fields": sorted({f[0] for f in lfail}),
                      "first": lfail[0][1]}))
    else:
        viol.extend((sig, detail) for sig, detail, _ in lfail)

    # --- values ----------------------------------------------------------
    want = [Decimal(s) for s in grid_value_strings(pattern, shape)]
    got = cube["values"]
    if cube["nval"] != 1:
        viol.append(("C18/value-count/values-per-voxel",
                     {"declared": cube["nval"]}))
    if len(got) != n:
        k = min(len(got), n)
        prefix = all(same_printed(g, w) for g, w in zip(got[:k], want[:k]))
        viol.append((
            f"C18/value-count/n_mod_6={n % 6}/"
            + ("too-few" if len(got) < n else "too-many"),
            {"got": len(got), "expected": n, "shape": list(shape),
             "common_prefix_equal": prefix,
             "natoms_header": cube["natoms"],
             "atom_like_records_after_header": cube["atom_like_records"],
             "tail_tokens": cube["value_tokens"][-3:]}))
    else:
        bad = [idx for idx, (g, w) in enumerate(zip(got, want))
               if not same_printed(g, w)]
        if bad:
            cls = classify_value_mismatch(pattern, shape, got, want)
            sig = f"C18/value/{cls}"
            if cls == "wrong-value":
                sig += f"/pattern={pattern}"
            vs = grid_value_strings(pattern, shape)
            viol.append((sig, {
                "n_bad": len(bad), "n": n, "shape": list(shape),
                "first_bad": [{"index": idx,
                               "cube": cube["value_tokens"][idx],
                               "dx": vs[idx]} for idx in bad[:4]]}))
    if got:
        ev.append("value-decimals=" + "/".join(sorted(
            {str(_digits(t)) for t in cube["value_tokens"]})))
        full = {c for c in cube["values_per_line"][:-1]}
        ev.append("values-per-line=" + ("/".join(
            str(c) for c in sorted(full)) if full else "single-line"))
    ev.append("header-decimals=" + "/".join(sorted(
        {str(-d.as_tuple().exponent)
         for d in cube["origin"] + sum(cube["axes"], [])})))
    ev.append("trailing-newline=" + ("yes" if cube["trailing_newline"]
                                     else "no"))
    return viol, ev


# ---------------------------------------------------------------------------
# drivers (the real code)
# ---------------------------------------------------------------------------
def convert_api(dx_path, pqr_path, cube_path):
    from pdb2pqr import io as pio

    stage = "read_pqr"
    try:
        with open(pqr_path) as fh:
            atoms = pio.read_pqr(fh)
        stage = "read_dx"
        with open(dx_path) as fh:
            dx = pio.read_dx(fh)
        stage = "write_cube"
        with open(cube_path, "w") as fh:
            pio.write_cube(fh, dx, atoms)
    except Exception as exc:  # noqa: BLE001 - outcome of the real code
        return stage, exc
    return None, None


def convert_cli(dx_path, pqr_path, cube_path):
    from pdb2pqr import main as pmain

    argv = sys.argv
    sys.argv = ["dx2cube", str(dx_path), str(pqr_path), str(cube_path)]
    sink = _stdio.StringIO()
    try:
        with contextlib.redirect_stdout(sink), contextlib.redirect_stderr(sink):
            pmain.dx_to_cube()
    except SystemExit as exc:
        if exc.code not in (None, 0):
            return "dx_to_cube", exc
    except Exception as exc:  # noqa: BLE001
        return "dx_to_cube", exc
    finally:
        sys.argv = argv
        engine.quiet_logging()
    return None, None


def evaluate(shape, pattern, origin, spacing, natoms, layout, style, driver):
    """One execution of the real converter + oracle."""
    shape = tuple(shape)
    d = engine.scratch_dir()
    dx_path, pqr_path, cube_path = d / "in.dx", d / "in.pqr", d / "out.cube"
    vals = grid_value_strings(pattern, shape)
    dx_path.write_text(
        dx_text(shape, ORIGINS[origin], SPACINGS[spacing], vals, style))
    pqr_path.write_text(pqr_text(natoms, layout))
    if cube_path.exists():
        cube_path.unlink()
    conv = convert_cli if driver == "cli" else convert_api
    stage, exc = conv(dx_path, pqr_path, cube_path)
    if exc is not None:
        return [(f"C18/exception/{stage}/{type(exc).__name__}",
                 {"error": str(exc)[:300]})], [f"exception:{stage}"]
    if not cube_path.exists():
        return [("C18/no-cube-written", {})], ["no-cube"]
    with open(cube_path, newline="") as fh:
        text = fh.read()
    return check_cube(text, shape, ORIGINS[origin], SPACINGS[spacing],
                      pattern, natoms)


# ---------------------------------------------------------------------------
# harness interface
# ---------------------------------------------------------------------------
def _shapes(tier):
    if tier == "thorough":
        base = list(itertools.product(range(1, 7), repeat=3))
        extra = EXTRA_SHAPES_THOROUGH
    else:
        base = list(itertools.product(range(1, 5), repeat=3))
        extra = EXTRA_SHAPES_QUICK
    shapes = base + [s for s in extra if s not in base]
    # simplest first: by number of values, then lexicographic
    return sorted(shapes, key=lambda s: (s[0] * s[1] * s[2], s))


def enumerate_cases(tier, seed):
    if tier == "thorough":
        patterns = QUICK_PATTERNS + EXTRA_PATTERNS
        origins, spacings = THOROUGH_ORIGINS, THOROUGH_SPACINGS
        cli = set(patterns)
    else:
        patterns = QUICK_PATTERNS + [EXTRA_PATTERNS[seed % len(EXTRA_PATTERNS)]]
        origins, spacings = QUICK_ORIGINS, QUICK_SPACINGS
        cli = {"mag", "index"}
    cases = []
    for shape in _shapes(tier):
        for p in patterns:
            cases.append({"shape": list(shape), "pattern": p,
                          "origins": origins, "spacings": spacings,
                          "cli": p in cli})
    return cases


def _single(case):
    return (case["shape"], case["pattern"], case["origin"], case["spacing"],
            case["natoms"], case["layout"], case["style"], case["driver"])


def _expand(case):
    if "origin" in case:  # one replayable evaluation
        yield _single(case)
        return
    shape, p = case["shape"], case["pattern"]
    for o in case["origins"]:
        for s in case["spacings"]:
            for natoms, layout in ATOM_LISTS:
                for style in STYLES:
                    yield shape, p, o, s, natoms, layout, style, "api"
    if case.get("cli"):
        o, s = case["origins"][1], case["spacings"][-1]
        for natoms, layout in ATOM_LISTS:
            yield shape, p, o, s, natoms, layout, "apbs", "cli"


def run_case(case):
    evals = 0
    violations, events, nontrivial = [], {}, []
    for ev in _expand(case):
        shape, p, o, s, natoms, layout, style, driver = ev
        viol, evs = evaluate(*ev)
        evals += 1
        n = shape[0] * shape[1] * shape[2]
        mini = {"shape": list(shape), "pattern": p, "origin": o,
                "spacing": s, "natoms": natoms, "layout": layout,
                "style": style, "driver": driver}
        for sig, detail in viol:
            violations.append({"sig": sig, "detail": detail, "case": mini})
        evs = list(evs) + [
            f"n_mod_6={n % 6}", f"n_mod_3={n % 3}", f"driver={driver}",
            f"natoms={natoms}", "ok" if not viol else "violation",
        ]
        for k in evs:
            events[k] = events.get(k, 0) + 1
        if n >= 2 or natoms:
            nontrivial.append(
                "%dx%dx%d/%s/%s/%s/%d%s/%s/%s"
                % (shape[0], shape[1], shape[2], p, o, s, natoms, layout,
                   style, driver))
    return {"evals": evals, "violations": violations, "events": events,
            "nontrivial": nontrivial}


def finish(ctx):
    ctx.extra["lattice"] = {
        "value_patterns": QUICK_PATTERNS + EXTRA_PATTERNS,
        "origins": {k: list(v) for k, v in ORIGINS.items()},
        "spacings": {k: [list(r) for r in v] for k, v in SPACINGS.items()},
        "atom_lists": [f"{n}{lay}" for n, lay in ATOM_LISTS],
        "dx_styles": STYLES, "drivers": ["api", "cli"],
    }
    ctx.extra["count_sign_observed"] = {
        k: ctx.events[k] for k in sorted(ctx.events)
        if k.startswith("count-sign=")
    }
