"""C09 - formatting and naming options never change the computed model.

Complete option lattice: all 2^5 subsets of {--whitespace, --keep-chain,
--include-header, --pdb-output, --apbs-input} x --ffout in {none, 6 schemes}
x 6 force fields x 5 structures (relational oracle against the run without
formatting options); --drop-water against the physically water-deleted input
(byte equality); --neutraln/--neutralc subsets (PARSE) over every residue type
at the chain ends (only terminal residues differ, total charge shifts by -1 /
+1 per terminus actually neutralised).
"""

import itertools

from .. import build, corpus, engine, pipeline
from ..refs import pqr_ref
from ..refs import templates as T

PROPERTY = "C09"
LEVEL = "model_checking"
RULE = (
    "case = (structure, force field, --ffout scheme): all 32 subsets of the "
    "five formatting options are run and compared with the subset-free run "
    "of the same case; plus drop-water and neutral-terminus blocks.  "
    "non-trivial = distinct (structure, force field, ffout, option subset) "
    "runs that completed and were compared"
)
ASSUMPTIONS = [
    "a model is 'the same' when atom count and order, residue numbers and "
    "the x, y, z, charge and radius strings are identical; spacing, chain "
    "column and (with --ffout) names may differ",
    "runs that abort (e.g. force fields lacking a residue class) are "
    "compared for *consistency*: every option subset must abort alike",
]
BOUND = {
    "quick": "6 structures x 6 force fields x 4 ffout values (none, AMBER, "
    "CHARMM, one seed-chosen; thorough: all 7) x 32 subsets; "
    "drop-water x 4 structures x 6 force fields x 2 option sets + two-chain "
    "layouts (3 water placements x chain ids x OXT); neutral "
    "termini: 20 residue types x 4 flag subsets x 3 layouts (one with a "
    "hidden chain end); 3 structures x 32 subsets with --clean as base",
    "thorough": "same plus --noopt/--nodebump variants of the base run",
}
FORMAT_OPTS = ["--whitespace", "--keep-chain", "--include-header",
               "--pdb-output=@out:model.pdb", "--apbs-input=@out:apbs.in"]
STRUCTURES = ["pep_wat", "two_blank", "his_asp", "strand", "titrated",
              "pep_wide"]


def structure(name):
    """-> (text, injected pKa rows or None)"""
    if name == "pep_wat":
        atoms = build.build_peptide(["SER", "LYS", "GLU", "ALA"])
        atoms.append(build.water((9.0, 9.0, 9.0), 100))
        atoms.append(build.water((-8.0, 6.0, 3.0), 101))
        return build.pdb_text(atoms), None
    if name == "pep_wide":
        # y fills its eight columns (sign in the first one); x and z need
        # nine and are clipped by the writer - alike in every format
        atoms = build.build_peptide(["THR", "CYS", "ASN", "ARG"],
                                    origin=(-250.0, -120.0, 1050.0))
        atoms.append(build.water((-245.0, -111.0, 1055.0), 100))
        lines = []
        for line in build.pdb_text(atoms).splitlines():
            if line.startswith(("ATOM", "HETATM")):
                x = float(line[30:38]) - 1000.0
                z = float(line[46:54]) + 9000.0
                line = (line[:30] + f"{x:8.3f}"[:8] + line[38:46]
                        + f"{z:8.3f}"[:8] + line[54:])
            lines.append(line)
        return "\n".join(lines) + "\n", None
    if name == "two_blank":
        a = build.build_peptide(["ALA", "TYR", "GLY"], chain="")
        b = build.build_peptide(["THR", "ASN", "ALA"], chain="", start=11,
                                origin=(0.0, 0.0, 20.0))
        return build.pdb_text(a + b), None
    if name == "his_asp":
        atoms = build.build_peptide(["HIS", "ASP", "HIS", "ASH", "GLN"])
        atoms.append(build.water((2.0, 7.0, 5.0), 100))
        return build.pdb_text(atoms), None
    if name == "strand":
        return build.pdb_text(build.build_strand(["DA", "DT", "DG"])), None
    if name == "titrated":
        seq = ["ALA", "ASP", "HIS", "LYS", "TYR", "ALA"]
        atoms = build.build_peptide(seq)
        rows = []
        pk = {"ASP": 9.0, "HIS": 9.0, "LYS": 3.0, "TYR": 3.0}
        for i, n in enumerate(seq):
            if n in pk:
                rows.append({"res_num": 1 + i, "ins_code": "", "res_name": n,
                             "chain_id": "A",
                             "group_label": f"{n:<3}{1 + i:>4} A",
                             "group_type": None, "pKa": pk[n],
                             "model_pKa": pk[n], "buried": 0.0,
                             "coupled_group": None})
        return build.pdb_text(atoms), rows
    raise ValueError(name)


def do_run(text, opts, rows):
    if rows is not None:
        opts = list(opts) + ["--titration-state-method=propka", "--with-ph=7"]
        with pipeline.inject_pka(rows):
            return pipeline.run(text, opts)
    return pipeline.run(text, opts)


def numbers(r, opts):
    ws = "--whitespace" in opts
    kc = "--keep-chain" in opts
    atoms = pqr_ref.parse(r.pqr_text, whitespace=ws, keep_chain=kc)
    return [(a["res_seq"], a["xs"].strip(), a["ys"].strip(), a["zs"].strip(),
             a["qs"].strip(), a["rs"].strip()) for a in atoms], atoms


def run_lattice(case):
    res = {"evals": 0, "violations": [], "events": {}, "nontrivial": []}
    text, rows = structure(case["structure"])
    ff = case["ff"]
    base_opts = [f"--ff={ff}"]
    if case.get("clean"):
        base_opts = ["--clean"]  # the short cut writes from its own branch
    if case["ffout"]:
        base_opts.append(f"--ffout={case['ffout']}")
    base = do_run(text, base_opts[:1], rows)
    res["evals"] += 1
    seen = set()
    tagbase = (f"{case['structure']}/{'--clean' if case.get('clean') else ff}"
               f"/ffout={case['ffout'] or 'none'}")
    if base.ok:
        try:
            base_num, base_atoms = numbers(base, [])
        except ValueError as exc:
            res["violations"].append({
                "sig": "C09/lattice/records-not-readable/-",
                "detail": {"case": tagbase, "error": str(exc)[:120]}})
            return res
    for n in range(len(FORMAT_OPTS) + 1):
        for sub in itertools.combinations(FORMAT_OPTS, n):
            opts = base_opts + list(sub)
            if not sub and not case["ffout"]:
                continue
            r = do_run(text, opts, rows)
            res["evals"] += 1
            label = "+".join(o.split("=")[0] for o in sub) or "-"
            if r.ok != base.ok:
                sig = (f"C09/lattice/outcome-differs/"
                       f"{'+'.join(sorted(o.split('=')[0] for o in sub))}"
                       f"/ffout={bool(case['ffout'])}")
                if sig not in seen:
                    seen.add(sig)
                    res["violations"].append({
                        "sig": sig, "detail": {"case": tagbase, "base_ok": base.ok,
                                               "variant_exc": r.exc,
                                               "base_exc": base.exc}})
                continue
            if not r.ok:
                res["events"]["both-abort"] = res["events"].get("both-abort", 0) + 1
                continue
            try:
                num, atoms = numbers(r, opts)
            except ValueError as exc:
                sig = ("C09/lattice/records-not-readable/"
                       + ("+".join(sorted(o.split("=")[0] for o in sub)) or "-"))
                if sig not in seen:
                    seen.add(sig)
                    res["violations"].append({
                        "sig": sig, "detail": {"case": tagbase, "opts": opts,
                                               "error": str(exc)[:120]}})
                continue
            res["nontrivial"].append(f"{tagbase}/{label}")
            if num != base_num:
                # classify: count, order or value
                if len(num) != len(base_num):
                    kind = "atom-count"
                elif sorted(num) == sorted(base_num):
                    kind = "atom-order"
                else:
                    i = next(k for k in range(len(num)) if num[k] != base_num[k])
                    fld = ["res_seq", "x", "y", "z", "charge", "radius"]
                    j = next(k for k in range(6) if num[i][k] != base_num[i][k])
                    kind = "value:" + fld[j]
                culprit = "+".join(sorted(o.split("=")[0] for o in sub)) or "-"
                sig = (f"C09/lattice/model-changed/{kind}/{culprit}"
                       f"/ffout={bool(case['ffout'])}")
                if sig not in seen:
                    seen.add(sig)
                    res["violations"].append({
                        "sig": sig, "detail": {"case": tagbase, "opts": opts,
                                               "n_base": len(base_num),
                                               "n_variant": len(num)}})
            # without --ffout names must be identical too
            if not case["ffout"]:
                if [(a["name"], a["res_name"]) for a in atoms] != \
                        [(a["name"], a["res_name"]) for a in base_atoms]:
                    sig = f"C09/lattice/names-changed-without-ffout/{label}"
                    if sig not in seen:
                        seen.add(sig)
                        res["violations"].append({"sig": sig,
                                                  "detail": {"case": tagbase}})
            # chain column: present iff --keep-chain
            kc = "--keep-chain" in sub
            chains = {a["chain"] for a in atoms}
            if atoms and not kc and chains != {""}:
                sig = "C09/lattice/chain-column-without-keep-chain"
                if sig not in seen:
                    seen.add(sig)
                    res["violations"].append({"sig": sig, "detail": {"case": tagbase}})
            if atoms and kc:
                missed = {id(a) for a in (r.missed or [])}
                want = [a.chain_id or "" for a in r.bm.atoms
                        if id(a) not in missed]
                if [a["chain"] for a in atoms] != want:
                    sig = "C09/lattice/chain-column-wrong-with-keep-chain"
                    if sig not in seen:
                        seen.add(sig)
                        res["violations"].append({
                            "sig": sig, "detail": {"case": tagbase,
                                                   "opts": opts}})
    return res


def run_dropwater(case):
    res = {"evals": 2, "violations": [], "events": {}, "nontrivial": []}
    ff = case["ff"]
    opts = [f"--ff={ff}"] + list(case["opts"])
    seq = case["seq"]
    atoms = build.build_peptide(seq)
    waters = [build.water((9.0, 9.0, 9.0), 100), build.water((9.0, 12.0, 9.0), 101),
              build.water((-7.0, 5.0, 2.0), 102)]
    if case.get("records") == "ATOM":
        for w in waters[:2]:  # modelling tools write waters as ATOM records
            w["record"] = "ATOM"
            w["chain"] = "A"
        waters[1]["res_name"] = "WAT"
    if case["where"] == "end":
        with_w = atoms + waters
    else:  # waters listed first
        with_w = waters + atoms
    a = pipeline.run(build.pdb_text(with_w), opts + ["--drop-water"])
    b = pipeline.run(build.pdb_text(atoms), opts)
    tag = (f"{case['where']}/{case.get('records', 'HETATM')}/{ff}/"
           f"{'+'.join(case['opts']) or '-'}")
    if a.ok != b.ok:
        res["violations"].append({"sig": "C09/drop-water/outcome-differs",
                                  "detail": {"a": a.exc, "b": b.exc, "case": tag}})
    elif a.ok:
        res["nontrivial"].append("dropwater:" + tag + ":" + "".join(seq))
        if a.pqr_text != b.pqr_text:
            res["violations"].append({
                "sig": f"C09/drop-water/not-equal-to-water-deleted-input/"
                       f"waters-{case['where']}-as-{case.get('records', 'HETATM')}",
                "detail": {"case": tag, "len_a": len(a.pqr_text),
                           "len_b": len(b.pqr_text)}})
    return res


def run_dropwater_multi(case):
    """Two chains; waters inside a chain's block (before its TER), in a
    TER-delimited block of their own, or at the end of the file.  Reference:
    the same file with the water lines deleted."""
    from ..pdbfmt import atom_line

    res = {"evals": 2, "violations": [], "events": {}, "nontrivial": []}
    ff = case["ff"]
    opts = [f"--ff={ff}"]
    ids = ("A", "B") if case["ids"] == "AB" else ("", "")
    seqs = (["SER", "LYS", "GLU"], ["HIS", "ASN", "TYR"])
    lines = ["HEADER    VERIF BUILT STRUCTURE                   01-JAN-00"
             "   XXXX"]
    serial = 1
    # waters numbered from 101, or re-using the numbers of the chain's own
    # residues (solvent blocks that restart their numbering)
    wnum = case.get("wnum", 101)
    tail = []
    for k, (seq, cid) in enumerate(zip(seqs, ids)):
        pep = build.build_peptide(seq, chain=cid, start=1 + 10 * k,
                                  oxt=case["oxt"],
                                  origin=(0.0, 0.0, 25.0 * k))
        for a in pep:
            x, y, z = a["xyz"]
            lines.append(atom_line(serial, a["name"], a["res_name"], cid,
                                   a["res_seq"], x, y, z))
            serial += 1
        wat = []
        for j in range(2):
            wat.append("W" + atom_line(
                serial, "O", "HOH", cid, wnum, 30.0 + 4 * j, 5.0,
                25.0 * k, record="HETATM"))
            serial += 1
            wnum += 1
        if case.get("wnum", 101) < 100:
            wnum = case["wnum"] + 10 * (k + 1)
        if case["place"] == "before_ter":
            lines += wat + ["TER"]
        elif case["place"] == "own_block":
            lines += ["TER"] + wat + ["TER"]
        else:
            lines += ["TER"]
            tail += wat
    lines += tail + ["END"]
    with_w = "\n".join(l[1:] if l.startswith("W") else l
                       for l in lines) + "\n"
    without = "\n".join(l for l in lines if not l.startswith("W")) + "\n"
    a = pipeline.run(with_w, opts + ["--drop-water"])
    b = pipeline.run(without, opts)
    tag = (f"{case['place']}/ids={case['ids']}/oxt={case['oxt']}/"
           f"wnum={case.get('wnum', 101)}/{ff}")
    if a.ok != b.ok:
        res["violations"].append({
            "sig": f"C09/drop-water/outcome-differs/{case['place']}",
            "detail": {"a": a.exc, "b": b.exc, "case": tag}})
    elif a.ok:
        res["nontrivial"].append("dropwater-multi:" + tag)
        if a.pqr_text != b.pqr_text:
            res["violations"].append({
                "sig": "C09/drop-water/not-equal-to-water-deleted-input/"
                       f"two-chains:{case['place']}/ids={case['ids']}/"
                       f"oxt={case['oxt']}",
                "detail": {"case": tag, "len_a": len(a.pqr_text),
                           "len_b": len(b.pqr_text)}})
    else:
        res["events"]["dropwater-multi:both-abort"] = 1
    return res


def run_neutral(case):
    res = {"evals": 0, "violations": [], "events": {}, "nontrivial": []}
    x = case["x"]
    if case["layout"] == "one":
        # optionally a backbone atom of a terminal residue is missing from
        # the input (rebuilt by the program): the terminus is still one
        omit = {"N@n": {0: {"N"}}, "O@c": {2: {"O"}}, "OXT@c": {2: {"OXT"}},
                "C@c": {2: {"C"}}}.get(case.get("omit"))
        atoms = build.build_peptide([x, "ALA", x], omit=omit)
        ends = {1: "n", 3: "c"}
    elif case["layout"] == "tail":
        # the chain is followed by waters carrying its chain id
        atoms = build.build_peptide([x, "ALA", x])
        atoms.append(build.water((25.0, 9.0, 9.0), 201, chain="A"))
        atoms.append(build.water((25.0, 13.0, 9.0), 202, chain="A"))
        ends = {1: "n", 3: "c"}
    elif case["layout"] == "hidden":
        # two peptides sharing one chain id, no TER: the first ends in OXT
        a = build.build_peptide([x, "ALA", x], chain="A")
        b = build.build_peptide([x, "GLY", x], chain="A", start=4,
                                origin=(0.0, 0.0, 20.0))
        for at in b:
            at["res_idx"] += 3
        atoms = a + b
        ends = {1: "n", 3: "c", 4: "n", 6: "c"}
    else:
        a = build.build_peptide([x, "ALA", x], chain="A")
        b = build.build_peptide([x, "GLY", x], chain="B", start=11,
                                origin=(0.0, 0.0, 20.0))
        atoms = a + b
        ends = {1: "n", 3: "c", 11: "n", 13: "c"}
    text = build.pdb_text(atoms, ter=(case["layout"] != "hidden"))
    base = pipeline.run(text, ["--ff=PARSE"])
    res["evals"] += 1
    if not base.ok:
        res["events"]["neutral-base-failed"] = 1
        return res
    bnum, batoms = numbers(base, [])

    def per_res(atoms_):
        d = {}
        for a in atoms_:
            d.setdefault(a["res_seq"], []).append(
                (a["name"], a["xs"], a["ys"], a["zs"], a["qs"], a["rs"]))
        return d
    bres = per_res(batoms)
    btotal = sum(a["charge"] for a in batoms)
    for flags in (["--neutraln"], ["--neutralc"], ["--neutraln", "--neutralc"]):
        r = pipeline.run(text, ["--ff=PARSE"] + flags)
        res["evals"] += 1
        tag = "+".join(flags)
        if not r.ok:
            res["violations"].append({
                "sig": f"C09/neutral/run-fails/{tag}/{x}",
                "detail": {"x": x, "exc": r.exc}})
            continue
        _num, atoms_ = numbers(r, [])
        vres = per_res(atoms_)
        res["nontrivial"].append(f"neutral:{x}:{case['layout']}:{tag}"
                                 + (":" + case["omit"] if case.get("omit")
                                    else ""))
        changed = {k for k in set(bres) | set(vres) if bres.get(k) != vres.get(k)}
        allowed = {k for k, e in ends.items()
                   if (e == "n" and "--neutraln" in flags)
                   or (e == "c" and "--neutralc" in flags)}
        if not changed <= allowed:
            res["violations"].append({
                "sig": f"C09/neutral/non-terminal-residue-changed/{tag}",
                "detail": {"x": x, "changed": sorted(changed - allowed)}})
        # termini actually neutralised, read from the written atoms
        dq = 0
        for k, e in ends.items():
            names_b = {n for n, *_ in bres.get(k, [])}
            names_v = {n for n, *_ in vres.get(k, [])}
            if e == "n" and "H3" in names_b and "H3" not in names_v:
                dq -= 1
            if e == "c" and "HO" in names_v and "HO" not in names_b:
                dq += 1
        # every terminus the option addresses is neutralised (an
        # N-terminal proline has no third hydrogen to lose: no claim)
        for k, e in sorted(ends.items()):
            names_b = {n for n, *_ in bres.get(k, [])}
            names_v = {n for n, *_ in vres.get(k, [])}
            if e == "n" and "--neutraln" in flags and x != "PRO" \
                    and "H3" in names_v:
                res["violations"].append({
                    "sig": f"C09/neutral/terminus-kept-charged/{tag}/n"
                           + (f"/missing:{case['omit']}" if case.get("omit")
                              else ""),
                    "detail": {"x": x, "residue": k}})
            if e == "c" and "--neutralc" in flags and "HO" not in names_v:
                res["violations"].append({
                    "sig": f"C09/neutral/terminus-kept-charged/{tag}/c"
                           + (f"/missing:{case['omit']}" if case.get("omit")
                              else ""),
                    "detail": {"x": x, "residue": k}})
        total = sum(a["charge"] for a in atoms_)
        if abs((total - btotal) - dq) > 1e-3:
            res["violations"].append({
                "sig": f"C09/neutral/total-charge-shift/{tag}",
                "detail": {"x": x, "shift": round(total - btotal, 4),
                           "termini_neutralised": dq}})
        k2 = f"neutralised:{tag}:{dq:+d}"
        res["events"][k2] = res["events"].get(k2, 0) + 1
    return res


def run_case(case):
    if case["mode"] == "lattice":
        return run_lattice(case)
    if case["mode"] == "dropwater_multi":
        return run_dropwater_multi(case)
    if case["mode"] == "dropwater":
        return run_dropwater(case)
    return run_neutral(case)


def enumerate_cases(tier, seed):
    cases = []
    ffouts = [None] + corpus.FFS
    if tier == "quick":
        rest = ["PARSE", "TYL06", "PEOEPB", "SWANSON"]
        ffouts = [None, "AMBER", "CHARMM", rest[seed % len(rest)]]
    for s in STRUCTURES:
        for ff in corpus.FFS:
            if s == "strand" and ff not in corpus.NUCLEIC_FFS:
                continue  # no nucleic-acid parameters: nothing to compare
            for ffout in ffouts:
                cases.append({"mode": "lattice", "structure": s, "ff": ff,
                              "ffout": ffout})
    for ff in corpus.FFS:
        for opts in ([], ["--noopt"]):
            for where in ("end", "start"):
                for seq in (["SER", "LYS", "GLU"], ["HIS", "ASN", "TYR"]):
                    for records in ("HETATM", "ATOM"):
                        cases.append({"mode": "dropwater", "ff": ff,
                                      "opts": opts, "where": where,
                                      "seq": seq, "records": records})
    for ff in ("AMBER", "PARSE"):
        for place in ("before_ter", "own_block", "end"):
            for ids in ("AB", "blank"):
                for oxt in (True, False):
                    cases.append({"mode": "dropwater_multi", "ff": ff,
                                  "place": place, "ids": ids, "oxt": oxt})
                    if place != "before_ter":
                        cases.append({"mode": "dropwater_multi", "ff": ff,
                                      "place": place, "ids": ids,
                                      "oxt": oxt, "wnum": 2})
    for st in ("pep_wat", "two_blank", "pep_wide"):
        cases.append({"mode": "lattice", "structure": st, "ff": "AMBER",
                      "ffout": None, "clean": True})
    for x in T.AMINO:
        for layout in ("one", "two", "hidden", "tail"):
            cases.append({"mode": "neutral", "x": x, "layout": layout})
        for om in ("N@n", "O@c", "OXT@c", "C@c"):
            cases.append({"mode": "neutral", "x": x, "layout": "one",
                          "omit": om})
    return cases
