"""C06 - titration follows pKa versus pH and stays within force-field support.

Complete decision table: titratable group x chain position x force field x
(pH, pKa) lattice on both sides of the pKa and at equality, driven (a) end to
end through main_driver with main.run_propka replaced by a harness table in
PROPKA's own row shape and (b) by calling Biomolecule.apply_pka_values with
keys in the format it documents.  A reference decision model built from the
independent force-field resolver says what must happen.  Plus a heptapeptide
carrying all seven side-chain groups along ascending pH chains (total charge
never increases) and, in the thorough tier, real PROPKA on bundled proteins.
"""

from .. import build, corpus, engine, pipeline
from ..refs import ff_ref
from ..refs import templates as T

PROPERTY = "C06"
LEVEL = "model_checking"
RULE = (
    "every cell of group (ASP GLU HIS CYS TYR LYS ARG N+ C-) x position x 6 "
    "force fields x pH {0,3.5,7,10.5,14} x pKa {-1,3.5,7,10.5,15} x driver "
    "{main_driver with injected pKa table, apply_pka_values}; non-trivial = "
    "distinct (driver, force field, group, position, side of pKa) cells in "
    "which the reference model demands a state change or a refusal"
)
ASSUMPTIONS = [
    "protonated exactly when pH < pKa (equality counts as deprotonated)",
    "a state is 'supported' when the force-field resolver (mc/refs/ff_ref) "
    "has every atom of the state's topology under its state-qualified name "
    "and their charges sum to an integer",
    "real PROPKA values are only seen through bundled proteins (thorough); "
    "the decision logic is covered completely through injected tables",
]
BOUND = {
    "quick": "complete decision table for both drivers; heptapeptide x 3 pKa "
    "vectors x 29-point pH chain x 6 force fields; pairs of same-type "
    "residues with pKa values straddling the pH (7 groups x 6 force fields "
    "x {default, --noopt}); ASP/GLU tables with --noopt and with an "
    "asymmetric carboxylate",
    "thorough": "quick + real PROPKA on 1AJJ, 1BX8, cterm_hid, 1A1P for pH "
    "0..14 step 2 x 6 force fields",
}
PHS = [0.0, 3.5, 7.0, 10.5, 14.0]
# (6.998 / 7.002: a pKa within rounding distance of a lattice pH)
PKAS = [-1.0, 3.5, 6.998, 7.0, 7.002, 10.5, 15.0]
GROUPS = ["ASP", "GLU", "HIS", "CYS", "TYR", "LYS", "ARG", "N+", "C-"]
PROT_STATE = {"ASP": "ASH", "GLU": "GLH", "HIS": "HIP", "CYS": "CYS",
              "TYR": "TYR", "LYS": "LYS", "ARG": "ARG"}
DEPROT_STATE = {"ASP": "ASP", "GLU": "GLU", "HIS": "HID", "CYS": "CYM",
                "TYR": "TYM", "LYS": "LYN", "ARG": "AR0"}
DEFAULT_PROT = {"ASP": False, "GLU": False, "HIS": False, "CYS": True,
                "TYR": True, "LYS": True, "ARG": True, "N+": True,
                "C-": False}


def is_protonated(group, names):
    n = set(names)
    if group == "ASP":
        return bool(n & {"HD1", "HD2"})
    if group == "GLU":
        return bool(n & {"HE1", "HE2"})
    if group == "HIS":
        return {"HD1", "HE2"} <= n
    if group == "CYS":
        return "HG" in n
    if group == "TYR":
        return "HH" in n
    if group == "LYS":
        return {"HZ1", "HZ2", "HZ3"} <= n
    if group == "ARG":
        return "HE" in n
    if group == "N+":
        return "H3" in n
    if group == "C-":
        return "HO" in n
    raise ValueError(group)


def supported(ff, state):
    """All atoms of the state's topology resolvable, integral charge."""
    table = ff_ref.builtin(ff.lower())
    try:
        want = corpus.expected_atoms(state)
    except KeyError:
        # the topology files define no such state: nothing can support it
        return False
    have = table.get(state, {})
    if any(a not in have for a in want):
        return False
    q = sum(have[a][0] for a in want)
    return abs(q - round(q)) < 1e-3


def target_state(group, resname, position, protonated):
    """State-qualified canonical name the residue must take."""
    pre = {"n": "N", "mid": "", "c": "C"}[position]
    if group == "N+":
        core = resname
        return ("N" if protonated else "NEUTRAL-N") + core
    if group == "C-":
        core = resname
        return ("NEUTRAL-C" if protonated else "C") + core
    core = PROT_STATE[group] if protonated else DEPROT_STATE[group]
    return pre + core


def propka_rows(info_res, group, pka, chain="A"):
    """Rows in PROPKA's own shape (see main.run_propka; PROPKA 3.5 reports
    a blank insertion code as one space and leaves the code out of the
    group label)."""
    label_name = group if group in ("N+", "C-") else info_res["input"]
    return [{
        "res_num": info_res["res_seq"],
        "ins_code": info_res.get("icode") or " ",
        "res_name": info_res["input"], "chain_id": chain,
        "group_label": f"{label_name:<3}{info_res['res_seq']:>4} {chain}",
        "group_type": None, "pKa": pka, "model_pKa": pka, "buried": 0.0,
        "coupled_group": None,
    }]


def _charge_verdict(side, state, charge):
    """The residue must carry the formal charge of the state it ended in
    (a thiolate that is parameterised as a bridged cysteine has the right
    hydrogens and the wrong charge)."""
    if charge is None:
        return None
    want = corpus.formal_charge(state)
    if abs(charge - want) > 1e-3:
        return (f"{side}/residue-charge-is-not-that-of-{state}",
                {"charge": round(charge, 4), "expected": want})
    return None


def judge(ff, group, resname, position, ph, pka, names, n_missed, warnings,
          key_fragment, charge=None):
    """Reference decision model -> (kind or None, detail)."""
    want_prot = ph < pka
    default = DEFAULT_PROT[group]
    got_prot = is_protonated(group, names)
    side = "pH<pKa" if ph < pka else ("pH==pKa" if ph == pka else "pH>pKa")
    if n_missed:
        return (f"{side}/atoms-of-the-residue-dropped",
                {"n_unassigned": n_missed, "names": sorted(names)})
    if want_prot == default:
        if got_prot != default:
            return (f"{side}/default-state-lost", {"names": sorted(names)})
        return _charge_verdict(side, target_state(group, resname, position,
                                                  default), charge)
    tgt = target_state(group, resname, position, want_prot)
    if supported(ff, tgt):
        if got_prot != want_prot:
            return (f"{side}/not-titrated-although-{tgt}-is-supported",
                    {"names": sorted(names)})
        return _charge_verdict(side, tgt, charge)
    # unsupported: default state and a warning
    if got_prot != default:
        return (f"{side}/titrated-to-unsupported-{tgt}",
                {"names": sorted(names)})
    warned = any(key_fragment in m or "terminal" in m for _l, _n, m in warnings)
    if not warned:
        return (f"{side}/kept-default-without-warning", {})
    return None


def find_residue(bm, res_seq, icode=""):
    for r in bm.residues:
        if r.res_seq == res_seq and (r.ins_code or "").strip() == icode:
            return r
    return None


def run_table_case(case):
    """One (driver, ff, group, position) cell: whole pH x pKa lattice."""
    from pdb2pqr import main

    ff, group, pos, driver = case["ff"], case["group"], case["pos"], case["driver"]
    x = case["x"]
    res = {"evals": 0, "violations": [], "events": {}, "nontrivial": []}
    atoms, info = corpus.build_host({"x": x, "pos": pos})
    tinfo = next(i for i in info if i["target"])
    if case.get("asym"):
        # asymmetric carboxylate: C-OD2 / C-OE2 0.08 A longer than the other
        # C-O bond (the optimiser takes a separate branch for such groups)
        far, near = (("OD2", "CG") if x == "ASP" else ("OE2", "CD"))
        o = next(a for a in atoms if a["res_seq"] == tinfo["res_seq"]
                 and a["name"] == far)
        c = next(a for a in atoms if a["res_seq"] == tinfo["res_seq"]
                 and a["name"] == near)
        u = o["xyz"] - c["xyz"]
        o["xyz"] = o["xyz"] + 0.08 * u / (u @ u) ** 0.5
    text = build.pdb_text(atoms)
    seen = set()
    totals = {}
    first, last = info[0], [i for i in info if i["kind"] == "aa"][-1]
    lattice = [(pka, ph, None) for pka in PKAS for ph in PHS]
    if case.get("termrows"):
        # PROPKA also reports the chain termini, under the terminal residue's
        # own name, number and chain: rows N+ (listed first) and C- (listed
        # last) accompany the side-chain row, with a pKa on the other side of
        # the pH than the side chain's (thorough: both sides)
        lattice = []
        for pka in PKAS:
            for ph in PHS:
                sides = (-1.0, 15.0) if case["termrows"] == "both" else (
                    (-1.0,) if ph < pka else (15.0,))
                lattice += [(pka, ph, t) for t in sides]
    for pka, ph, tpka in lattice:
        if True:
            rows = propka_rows(tinfo, group, pka)
            if tpka is not None:
                rows = (propka_rows(first, "N+", tpka) + rows
                        + propka_rows(last, "C-", tpka))
                if case.get("row_order") == "reversed":
                    rows.reverse()
            opts = [f"--ff={ff}", "--titration-state-method=propka",
                    f"--with-ph={ph}", "--keep-chain"] + list(
                        case.get("opts", []))
            if driver == "main":
                with pipeline.inject_pka(rows):
                    r = pipeline.run(text, opts)
            else:
                # apply_pka_values called with its documented key format
                def direct(orig, args, bm, _rows=rows):
                    return [], ""

                def patched_apply(orig, self_, force_field, ph_, pkadic,
                                  _g=group, _t=tinfo, _pka=pka):
                    if _g == "N+":
                        key = f"N+  {_t['res_seq']:>3} A"
                    elif _g == "C-":
                        key = f"C-  {_t['res_seq']:>3} A"
                    else:
                        key = f"{_t['input']} {_t['res_seq']} A"
                    return orig(self_, force_field, ph_, {key.strip(): _pka})

                from pdb2pqr import biomolecule as bmod

                with pipeline.monitor(main, "run_propka", replace=direct), \
                        pipeline.monitor(bmod.Biomolecule, "apply_pka_values",
                                         replace=patched_apply):
                    r = pipeline.run(text, opts)
            res["evals"] += 1
            side = "pH<pKa" if ph < pka else ("pH==pKa" if ph == pka else "pH>pKa")
            cell = f"C06/{driver}/{ff}/{group}@{pos}"
            if case.get("opts") or case.get("asym") or case.get("termrows"):
                cell += "[" + "+".join(
                    list(case.get("opts", []))
                    + (["asym"] if case.get("asym") else [])
                    + (["terminus-rows"] if case.get("termrows") else [])) + "]"
            if not r.ok:
                sig = f"{cell}/{side}/run-fails:{r.exc[0]}"
                if sig not in seen:
                    seen.add(sig)
                    msg = str(r.exc_obj.__cause__ or r.exc_obj)[:160]
                    res["violations"].append({
                        "sig": sig, "detail": {"ph": ph, "pka": pka, "error": msg},
                        "case": dict(case, only=[ph, pka])})
                continue
            resd = find_residue(r.bm, tinfo["res_seq"])
            names = [a.name for a in resd.atoms]
            missed = {id(a) for a in (r.missed or [])}
            n_missed = sum(1 for a in resd.atoms if id(a) in missed)
            rq = sum(a.ffcharge for a in resd.atoms
                     if a.ffcharge is not None and id(a) not in missed)
            verdict = judge(ff, group, tinfo["input"], pos, ph, pka, names,
                            n_missed, r.warnings,
                            f"{tinfo['input']} {tinfo['res_seq']}", charge=rq)
            want_prot = ph < pka
            if want_prot != DEFAULT_PROT[group]:
                res["nontrivial"].append(f"{driver}:{ff}:{group}@{pos}:{side}")
                tgt = target_state(group, tinfo["input"], pos, want_prot)
                k = ("change-demanded:" if supported(ff, tgt)
                     else "refusal-demanded:") + f"{ff}:{tgt}"
                res["events"][k] = res["events"].get(k, 0) + 1
            if verdict is not None:
                sig = f"{cell}/{verdict[0]}"
                if sig not in seen:
                    seen.add(sig)
                    res["violations"].append({
                        "sig": sig,
                        "detail": dict(verdict[1], ph=ph, pka=pka,
                                       ffname=getattr(resd, "ffname", None)),
                        "case": dict(case, only=[ph, pka])})
            total = sum(a.ffcharge for a in r.bm.atoms
                        if a.ffcharge is not None and id(a) not in missed)
            if tpka is None:
                totals.setdefault(pka, []).append((ph, round(total, 3)))
    # total charge never increases with pH for a fixed pKa table
    for pka, seq in totals.items():
        seq.sort()
        for (p1, q1), (p2, q2) in zip(seq, seq[1:]):
            if q2 > q1 + 1e-3:
                sig = f"C06/{driver}/{ff}/{group}@{pos}/charge-increases-with-pH"
                if sig not in seen:
                    seen.add(sig)
                    res["violations"].append({
                        "sig": sig, "detail": {"pka": pka, "chain": seq}})
    return res


HEPTA = ["ASP", "GLU", "HIS", "CYS", "TYR", "LYS", "ARG"]
VECTORS = {
    "all_low": {g: 2.0 for g in HEPTA},
    "all_high": {g: 12.0 for g in HEPTA},
    "staggered": {"ASP": 3.9, "GLU": 4.3, "HIS": 6.5, "CYS": 8.6,
                  "TYR": 10.1, "LYS": 10.8, "ARG": 12.5},
}


def run_hepta_case(case):
    ff = case["ff"]
    vec = VECTORS[case["vector"]]
    seq = ["ALA"] + HEPTA + ["ALA"]
    atoms = build.build_peptide(seq)
    text = build.pdb_text(atoms)
    rows = []
    for i, name in enumerate(seq):
        if name in vec:
            rows += propka_rows({"res_seq": 1 + i, "input": name}, name,
                                vec[name])
    res = {"evals": 0, "violations": [], "events": {}, "nontrivial": []}
    chain = []
    seen = set()
    for k in range(0, 29):
        ph = k * 0.5
        with pipeline.inject_pka(rows):
            r = pipeline.run(text, [f"--ff={ff}", "--keep-chain",
                                    "--titration-state-method=propka",
                                    f"--with-ph={ph}"])
        res["evals"] += 1
        if not r.ok:
            sig = f"C06/hepta/{ff}/run-fails:{r.exc[0]}"
            if sig not in seen:
                seen.add(sig)
                res["violations"].append({
                    "sig": sig, "detail": {"ph": ph, "vector": case["vector"],
                                           "error": str(r.exc_obj.__cause__
                                                        or r.exc_obj)[:160]}})
            continue
        missed = {id(a) for a in (r.missed or [])}
        for i, name in enumerate(seq):
            if name not in vec:
                continue
            resd = find_residue(r.bm, 1 + i)
            names = [a.name for a in resd.atoms]
            n_missed = sum(1 for a in resd.atoms if id(a) in missed)
            rq = sum(a.ffcharge for a in resd.atoms
                     if a.ffcharge is not None and id(a) not in missed)
            verdict = judge(ff, name, name, "mid", ph, vec[name], names,
                            n_missed, r.warnings, f"{name} {1 + i}", charge=rq)
            if verdict is not None:
                sig = f"C06/hepta/{ff}/{name}@mid/{verdict[0]}"
                if sig not in seen:
                    seen.add(sig)
                    res["violations"].append({"sig": sig,
                                              "detail": dict(verdict[1], ph=ph)})
        total = sum(a.ffcharge for a in r.bm.atoms
                    if a.ffcharge is not None and id(a) not in missed)
        chain.append((ph, round(total, 3)))
    for (p1, q1), (p2, q2) in zip(chain, chain[1:]):
        if q2 > q1 + 1e-3:
            sig = f"C06/hepta/{ff}/charge-increases-with-pH"
            if sig not in seen:
                seen.add(sig)
                res["violations"].append({"sig": sig, "detail": {"chain": chain}})
    res["nontrivial"] = [f"hepta:{ff}:{case['vector']}:{q}" for _p, q in chain]
    res["events"][f"hepta-distinct-total-charges:{ff}:{case['vector']}="
                  f"{len({q for _p, q in chain})}"] = 1
    return res


def run_pair_case(case):
    """Two internal residues of the same titratable type whose pKa values
    straddle the pH: they must end in different states (a state change of
    one residue must not leak into the other)."""
    ff, g = case["ff"], case["group"]
    if case.get("icode"):
        # the two residues are neighbours numbered 2 and 2A: same name,
        # number and chain, told apart by the insertion code only
        seq = ["ALA", g, g, "ALA", "ALA"]
        atoms = build.build_peptide(seq, numbers=[1, 2, 2, 3, 4],
                                    icodes=["", "", "A", "", ""])
        second = (2, "A")
    else:
        seq = ["ALA", g, "ALA", g, "ALA"]
        atoms = build.build_peptide(seq)
        second = (4, "")
    text = build.pdb_text(atoms)
    res = {"evals": 0, "violations": [], "events": {}, "nontrivial": []}
    seen = set()
    for pk_a, pk_b in ((4.0, 10.0), (10.0, 4.0)):
        rows = propka_rows({"res_seq": 2, "input": g}, g, pk_a) + \
            propka_rows({"res_seq": second[0], "input": g,
                         "icode": second[1]}, g, pk_b)
        with pipeline.inject_pka(rows):
            r = pipeline.run(text, [f"--ff={ff}", "--keep-chain",
                                    "--titration-state-method=propka",
                                    "--with-ph=7"] + list(case.get("opts", [])))
        res["evals"] += 1
        tag = f"C06/pair/{ff}/{g}" + ("[--noopt]" if case.get("opts") else "") \
            + ("[2+2A]" if case.get("icode") else "")
        if not r.ok:
            sig = f"{tag}/run-fails:{r.exc[0]}"
            if sig not in seen:
                seen.add(sig)
                res["violations"].append({
                    "sig": sig, "detail": {"pkas": [pk_a, pk_b],
                                           "error": str(r.exc_obj.__cause__
                                                        or r.exc_obj)[:160]}})
            continue
        missed = {id(a) for a in (r.missed or [])}
        for seqno, ic, pk in ((2, "", pk_a), second + (pk_b,)):
            resd = find_residue(r.bm, seqno, ic)
            names = [a.name for a in resd.atoms]
            n_missed = sum(1 for a in resd.atoms if id(a) in missed)
            rq = sum(a.ffcharge for a in resd.atoms
                     if a.ffcharge is not None and id(a) not in missed)
            verdict = judge(ff, g, g, "mid", 7.0, pk, names, n_missed,
                            r.warnings, f"{g} {seqno}{ic}", charge=rq)
            res["nontrivial"].append(f"pair:{ff}:{g}:{pk_a}:{seqno}{ic}")
            if verdict is not None:
                which = "first" if (seqno, ic) == (2, "") else "second"
                sig = f"{tag}/{which}-of-two/{verdict[0]}"
                if sig not in seen:
                    seen.add(sig)
                    res["violations"].append({
                        "sig": sig, "detail": dict(verdict[1], pkas=[pk_a, pk_b],
                                                   residue=seqno)})
    return res


GROUP_OF = {"ASP": "ASP", "GLU": "GLU", "HIS": "HIS", "CYS": "CYS",
            "TYR": "TYR", "LYS": "LYS", "ARG": "ARG"}


def run_real_case(case):
    """Real PROPKA on a bundled protein along a pH chain."""
    from pdb2pqr import aa

    ff = case["ff"]
    text = (engine.REPO / "tests/data" / case["file"]).read_text()
    res = {"evals": 0, "violations": [], "events": {}, "nontrivial": []}
    chain = []
    seen = set()
    for ph in case["phs"]:
        r = pipeline.run(text, [f"--ff={ff}", "--keep-chain",
                                "--titration-state-method=propka",
                                f"--with-ph={ph}"])
        res["evals"] += 1
        if not r.ok:
            sig = f"C06/real/{ff}/run-fails:{r.exc[0]}"
            if sig not in seen:
                seen.add(sig)
                res["violations"].append({
                    "sig": sig, "detail": {"ph": ph, "file": case["file"],
                                           "error": str(r.exc_obj.__cause__
                                                        or r.exc_obj)[:160]}})
            continue
        missed = {id(a) for a in (r.missed or [])}
        pk = {}
        for row in r.pka or []:
            if row["group_label"].startswith(row["res_name"]):
                pk[(row["res_name"], row["res_num"], row["chain_id"])] = row["pKa"]
        for resd in r.bm.residues:
            if not isinstance(resd, aa.Amino):
                continue
            base = T.base_of(resd.name)
            key = (resd.name, resd.res_seq, resd.chain_id)
            if base not in GROUP_OF or key not in pk:
                continue
            if isinstance(resd, aa.CYS) and resd.ss_bonded:
                continue
            pos = "n" if resd.is_n_term else "c" if resd.is_c_term else "mid"
            names = [a.name for a in resd.atoms]
            n_missed = sum(1 for a in resd.atoms if id(a) in missed)
            rq = sum(a.ffcharge for a in resd.atoms
                     if a.ffcharge is not None and id(a) not in missed)
            verdict = judge(ff, base, base, pos, ph, pk[key], names, n_missed,
                            r.warnings, f"{resd.name} {resd.res_seq}",
                            charge=rq)
            res["nontrivial"].append(f"real:{case['file']}:{ff}:{key}:{ph < pk[key]}")
            if verdict is not None:
                sig = f"C06/real/{ff}/{base}@{pos}/{verdict[0]}"
                if sig not in seen:
                    seen.add(sig)
                    res["violations"].append({
                        "sig": sig, "detail": dict(verdict[1], ph=ph,
                                                   pka=pk[key], residue=str(resd),
                                                   file=case["file"])})
        total = sum(a.ffcharge for a in r.bm.atoms
                    if a.ffcharge is not None and id(a) not in missed)
        chain.append((ph, round(total, 3)))
    for (p1, q1), (p2, q2) in zip(chain, chain[1:]):
        if q2 > q1 + 1e-3:
            sig = f"C06/real/{ff}/charge-increases-with-pH"
            if sig not in seen:
                seen.add(sig)
                res["violations"].append({"sig": sig,
                                          "detail": {"chain": chain,
                                                     "file": case["file"]}})
    return res


def run_case(case):
    if case["mode"] == "table":
        if "only" in case:
            global PHS, PKAS
            saved = (PHS, PKAS)
            PHS, PKAS = [case["only"][0]], [case["only"][1]]
            try:
                c = dict(case)
                c.pop("only")
                return run_table_case(c)
            finally:
                PHS, PKAS = saved
        return run_table_case(case)
    if case["mode"] == "hepta":
        return run_hepta_case(case)
    if case["mode"] == "pair":
        return run_pair_case(case)
    return run_real_case(case)


def enumerate_cases(tier, seed):
    cases = []
    for driver in ("main", "direct"):
        for ff in corpus.FFS:
            for group in GROUPS:
                if group == "N+":
                    cells = [("n", x) for x in ("ALA", "LYS", "GLY")]
                elif group == "C-":
                    cells = [("c", x) for x in ("ALA", "SER")]
                else:
                    cells = [(p, group) for p in corpus.POSITIONS]
                for pos, x in cells:
                    cases.append({"mode": "table", "driver": driver, "ff": ff,
                                  "group": group, "pos": pos, "x": x})
    for ff in corpus.FFS:
        for vec in VECTORS:
            cases.append({"mode": "hepta", "ff": ff, "vector": vec})
        for g in HEPTA:
            cases.append({"mode": "pair", "ff": ff, "group": g})
            cases.append({"mode": "pair", "ff": ff, "group": g,
                          "opts": ["--noopt"]})
            cases.append({"mode": "pair", "ff": ff, "group": g,
                          "icode": True})
        # acids without optimisation / with an asymmetric carboxylate
        for g in ("ASP", "GLU"):
            for pos in corpus.POSITIONS:
                cases.append({"mode": "table", "driver": "main", "ff": ff,
                              "group": g, "pos": pos, "x": g,
                              "opts": ["--noopt"]})
                cases.append({"mode": "table", "driver": "main", "ff": ff,
                              "group": g, "pos": pos, "x": g, "asym": True})
    # side-chain rows accompanied by the terminus rows of the same residue
    for ff in corpus.FFS:
        for g in HEPTA:
            for pos in ("n", "c"):
                if tier == "quick":
                    cases.append({"mode": "table", "driver": "main", "ff": ff,
                                  "group": g, "pos": pos, "x": g,
                                  "termrows": "opposite"})
                else:
                    for order in ("propka", "reversed"):
                        cases.append({"mode": "table", "driver": "main",
                                      "ff": ff, "group": g, "pos": pos,
                                      "x": g, "termrows": "both",
                                      "row_order": order})
    if tier == "thorough":
        for f in ("1AJJ.pdb", "1BX8.pdb", "cterm_hid.pdb", "1A1P.pdb"):
            for ff in corpus.FFS:
                cases.append({"mode": "real", "file": f, "ff": ff,
                              "phs": [0, 2, 4, 6, 7, 8, 10, 12, 14]})
    return cases
