"""C01 - assigned charges and radii are exactly the force field's parameters.

(A) complete table diff (6 built-in force fields x every residue key x atom)
    of Forcefield.get_params/get_names against the independent resolver;
(B) every user (.DAT, .names) "program" of <=3 (thorough <=4) sections from a
    section grammar, whole lookup table diffed against the resolver;
(C) end-to-end grid residue x position x state x force field x option set:
    every atom of the returned model is written with exactly the resolver's
    parameters for the harness-inferred state, or omitted and reported.
"""

import itertools

from .. import build, corpus, engine, pipeline
from ..refs import ff_ref, pqr_ref
from ..refs import templates as T

PROPERTY = "C01"
LEVEL = "model_checking"
RULE = (
    "three exhaustive blocks: (A) every (force field, residue key, atom) "
    "cell of the six built-in lookup tables; (B) every sequence of <=3 "
    "(thorough <=4) .names sections drawn from a 9-template grammar over a "
    "fixed user .DAT file; (C) every tripeptide/strand/water case of the "
    "grid input residue name x chain position x force field x option set. "
    "non-trivial = distinct (force field, state-qualified residue, atom) "
    "cells looked up, distinct user programs with a non-empty section list, "
    "and distinct end-to-end cases"
)
ASSUMPTIONS = [
    "the reference resolver (mc/refs/ff_ref.py) encodes the documented "
    ".names semantics; it was cross-checked cell by cell against the six "
    "shipped tables",
    "user files outside the section grammar (other regex features, malformed "
    "XML) are not covered; a .names section renaming to a residue absent "
    "from the .DAT file is left out (behaviour undocumented)",
    "C01 is relative to the parameter files: editing a DAT value is not a "
    "C01 violation",
]
BOUND = {
    "quick": "A: all cells; B: all programs of <=3 sections (1110); C: all 33 "
    "input names x 3 positions x 6 force fields x 3 option sets + strands + "
    "user force field runs",
    "thorough": "A: all cells; B: all programs of <=4 sections (11110); C: as "
    "quick plus hydrogenated inputs for the default and --noopt --nodebump "
    "option sets",
}

OPTION_SETS = {
    "default": [],
    "noopt_nodebump": ["--noopt", "--nodebump"],
    "assign_only_h": ["--assign-only"],
    "whitespace": ["--whitespace"],
    "neutraln": ["--neutraln"],
    "neutralc": ["--neutralc"],
    "neutral_both": ["--neutraln", "--neutralc"],
}

# ---------------------------------------------------------------------------
# (B) user programs
# ---------------------------------------------------------------------------
USER_DAT = """# user force field written by the harness
XGL N -0.4100 1.8000 N
XGL HN 0.2700 0.6000 H
XGL CA 0.0300 1.9000 CT

XGL HA1 0.0800 1.3000
XGL C 0.5900 1.9100 C
XGL O -0.5600 1.6600 O
XAL N -0.4200 1.8100 N
XAL HN 0.2800 0.6100 H
XAL CA 0.0400 1.9200 CT
XAL CB -0.1800 1.9300 CT
XAL C 0.6000 1.9400 C
XAL O -0.5700 1.6700 O
# histidine family, XHE deliberately absent
XHP ND1 -0.1500 1.8200 NA
XHP HD1 0.3800 0.6200 H
XHP NE2 -0.1700 1.8300 NA
XHD ND1 -0.3800 1.8400 NA
XHD HD1 0.3600 0.6300 H
XOV CA 0.1111 2.1111 OV
XOV CB2 0.2222 2.2222 OV
SER OG -0.6500 1.7200 OH
SER HG 0.4200 0.0000 HO
SER OG -0.6600 1.7300 OH
WAT O -0.8340 1.7683 OW
"""

SECTION_TEMPLATES = {
    "noop": "<residue><name>ZZZ</name><atom><name>A</name>"
            "<useatomname>B</useatomname></atom></residue>",
    "literal": "<residue><name>GLY</name><useresname>XGL</useresname>"
               "</residue>",
    "regex_prefix": "<residue><name>[NC]?ALA</name><useresname>XAL"
                    "</useresname></residue>",
    "group": "<residue><name>HI([PDE])</name><useresname>XH$group"
             "</useresname></residue>",
    "alias": "<residue><name>[NC]?(GLY|ALA)</name><atom><name>H</name>"
             "<useatomname>HN</useatomname></atom></residue>",
    "alias_missing": "<residue><name>GLY</name><atom><name>HA3</name>"
                     "<useatomname>HA9</useatomname></atom></residue>",
    "alias_chain": "<residue><name>GLY</name><atom><name>HA2</name>"
                   "<useatomname>HA1</useatomname></atom><atom><name>HA3"
                   "</name><useatomname>HA2</useatomname></atom></residue>",
    "overlay": "<residue><name>N?ALA</name><useresname>XOV</useresname>"
               "<atom><name>CB</name><useatomname>CB2</useatomname></atom>"
               "</residue>",
    "native_alias": "<residue><name>X..</name><atom><name>H</name>"
                    "<useatomname>HN</useatomname></atom></residue>",
    # names spelled with XML character / entity references (H1' and HN):
    # the parser hands such text to the reader in several pieces
    "entity": "<residue><name>XAL</name><atom><name>H1&apos;</name>"
              "<useatomname>H&#78;</useatomname></atom></residue>",
}
TEMPLATE_ORDER = list(SECTION_TEMPLATES)


def names_text(program):
    body = "\n".join(SECTION_TEMPLATES[k] for k in program)
    return f"<?xml version='1.0'?>\n<names>\n{body}\n</names>\n"


_DEF = None


def worker_init():
    global _DEF
    from pdb2pqr import io as pio

    _DEF = pio.get_definitions()


def _diff_tables(ff_obj, ref, label):
    """Compare the implementation's complete lookup table with the reference
    table; returns list of (residue, atom, got, expected)."""
    bad = []
    n = 0
    keys = set(ff_obj.map) | set(ref)
    for res in sorted(keys):
        impl_atoms = ff_obj.map[res].atoms if res in ff_obj.map else {}
        atoms = set(impl_atoms) | set(ref.get(res, {}))
        for a in sorted(atoms):
            n += 1
            got = ff_obj.get_params(res, a) + ff_obj.get_names(res, a)
            e = ref.get(res, {}).get(a)
            exp = (None, None, None, None) if e is None else tuple(e)
            if got != exp:
                bad.append((res, a, got, exp))
    return n, bad


def run_table(case):
    from pdb2pqr import forcefield

    ff = case["ff"]
    obj = forcefield.Forcefield(ff, _DEF, None)
    n, bad = _diff_tables(obj, ff_ref.builtin(ff), ff)
    res = {"evals": n, "violations": [], "events": {f"table:{ff}": n},
           "nontrivial": [f"{ff}:{r}" for r in ff_ref.builtin(ff)]}
    # the residue states the topology files define (pinned list, see
    # refs/canonical_names.txt): a state that disappears from the definition
    # map leaves every residue in that state without parameters, and the
    # reference table - resolved over the same files - would lose it too
    pinned = (engine.VERIF / "mc/refs/canonical_names.txt").read_text().split()
    for name in pinned:
        if name not in _DEF.map:
            res["violations"].append({
                "sig": f"C01/definition/state-missing/{name}",
                "detail": {"missing": name, "ff": ff}})
        elif ff_ref.builtin(ff).get(name) and name not in obj.map:
            res["violations"].append({
                "sig": f"C01/table/{ff}/{name}/state-without-parameters",
                "detail": {"missing": name}})
    res["events"][f"definition-states:{len(_DEF.map)}"] = 1
    for r, a, got, exp in bad[:20]:
        res["violations"].append({
            "sig": f"C01/table/{ff}/{r}/{a}",
            "detail": {"got": got, "expected": exp}})
    return res


def run_program(case):
    from pdb2pqr import forcefield

    d = engine.scratch_dir()
    dat = d / "user.dat"
    nam = d / "user.names"
    dat.write_text(USER_DAT)
    res = {"evals": 0, "violations": [], "events": {}, "nontrivial": []}
    _aa, _na, _p, canonical = T.load()
    for program in case["programs"]:
        nam.write_text(names_text(program))
        ref = ff_ref.resolve(dat, nam, list(canonical))
        try:
            obj = forcefield.Forcefield(None, _DEF, str(dat), str(nam))
        except Exception as exc:
            res["violations"].append({
                "sig": f"C01/user/exception:{type(exc).__name__}/"
                       + "+".join(sorted(set(program))),
                "detail": str(exc)[:200],
                "case": {"mode": "program", "programs": [program]}})
            continue
        n, bad = _diff_tables(obj, ref, "user")
        res["evals"] += 1
        if program:
            res["nontrivial"].append("prog:" + ">".join(program))
        ncanon = sum(1 for r in ref if r in canonical)
        k = f"user:canonical-residues-resolved={ncanon}"
        res["events"][k] = res["events"].get(k, 0) + 1
        if bad:
            r, a, got, exp = bad[0]
            res["violations"].append({
                "sig": "C01/user/table-mismatch/" + "+".join(sorted(set(program))),
                "detail": {"program": program, "residue": r, "atom": a,
                           "got": got, "expected": exp, "n_bad": len(bad)},
                "case": {"mode": "program", "programs": [program]}})
    return res


# ---------------------------------------------------------------------------
# (C) end to end
# ---------------------------------------------------------------------------
def check_assignment(r, info, ff, opts, ref_table=None, tag=""):
    """Oracle for one finished run.  Returns (violations, events, cells)."""
    from pdb2pqr import aa, na

    viol, events, cells = [], {}, set()
    table = ref_table if ref_table is not None else ff_ref.builtin(ff.lower())
    ws = "--whitespace" in opts
    pqr = pqr_ref.parse(r.pqr_text, whitespace=ws, keep_chain=False)
    missed = {id(a) for a in (r.missed or [])}
    neutraln = "--neutraln" in opts
    neutralc = "--neutralc" in opts
    k = 0  # cursor in the PQR atom list
    residues = r.bm.residues
    # harness knowledge by (chain, res_seq)
    by_key = {(i["res_seq"], i.get("icode", "")): i for i in info}
    for res in residues:
        inf = by_key.get((res.res_seq, res.ins_code))
        names = [a.name for a in res.atoms]
        if isinstance(res, aa.Amino):
            state = corpus.state_ref(inf["input"], inf["position"], names,
                                     neutraln=neutraln, neutralc=neutralc)
        elif isinstance(res, na.Nucleic):
            state = inf["state"]
        elif isinstance(res, aa.WAT):
            state = "WAT"
        else:
            state = res.name
        events[f"state:{ff}:{state}"] = events.get(f"state:{ff}:{state}", 0) + 1
        for atom in res.atoms:
            e = table.get(state, {}).get(atom.name)
            cells.add(f"{ff}:{state}:{atom.name}")
            if e is None:
                ek = f"unassigned:{ff}:{state}"
                events[ek] = events.get(ek, 0) + 1
                if id(atom) not in missed:
                    viol.append((f"C01/e2e{tag}/{ff}/{state}/{atom.name}/"
                                 "no-entry-but-not-reported",
                                 {"ffname": getattr(res, "ffname", None)}))
                # must not be printed: next PQR atom must not be this one
                if (k < len(pqr) and pqr[k]["name"] == atom.name
                        and pqr[k]["res_seq"] == atom.res_seq
                        and abs(pqr[k]["x"] - atom.x) < 0.002
                        and abs(pqr[k]["y"] - atom.y) < 0.002):
                    viol.append((f"C01/e2e{tag}/{ff}/{state}/{atom.name}/"
                                 "no-entry-but-written",
                                 {"line": pqr[k], "ffname": res.ffname}))
                    k += 1
                continue
            q, rad = e[0], e[1]
            if id(atom) in missed:
                viol.append((f"C01/e2e{tag}/{ff}/{state}/{atom.name}/"
                             "has-entry-but-unassigned",
                             {"ffname": getattr(res, "ffname", None)}))
                continue
            if k >= len(pqr):
                viol.append((f"C01/e2e{tag}/{ff}/{state}/{atom.name}/"
                             "missing-from-pqr", {}))
                continue
            line = pqr[k]
            k += 1
            if line["name"] != atom.name or line["res_seq"] != atom.res_seq:
                viol.append((f"C01/e2e{tag}/{ff}/{state}/{atom.name}/"
                             "pqr-order-mismatch", {"line": line}))
                continue
            if (atom.ffcharge != q or atom.radius != rad
                    or line["qs"].strip() != f"{q:.4f}"
                    or line["rs"].strip() != f"{rad:.4f}"):
                viol.append((f"C01/e2e{tag}/{ff}/{state}/{atom.name}/"
                             "wrong-parameters",
                             {"expected": (q, rad),
                              "model": (atom.ffcharge, atom.radius),
                              "pqr": (line["qs"], line["rs"]),
                              "ffname": getattr(res, "ffname", None)}))
    if k != len(pqr):
        viol.append((f"C01/e2e{tag}/{ff}/extra-pqr-lines", {"extra": len(pqr) - k}))
    return viol, events, cells


UNKNOWN_GROUPS = {"ZN": ["ZN"], "UNL": ["C1", "O1"], "NA": ["NA"]}


def small_entries(ff):
    """Hetero groups (ions, O2, caps) the force field has its own entry for:
    residue names of <=3 characters with <=3 atoms, read from the harness's
    reference table."""
    t = ff_ref.builtin(ff.lower())
    return {k: list(v) for k, v in t.items()
            if len(k) <= 3 and len(v) <= 3 and k != "H2O"
            and all(len(a) <= 4 for a in v)}


def hetero_groups(ff, which):
    """Isolated hetero groups far from the peptide and from each other."""
    import numpy as np

    groups = {}
    if which in ("known", "both"):
        groups.update(small_entries(ff))
    if which in ("unknown", "both"):
        groups.update({k: v for k, v in UNKNOWN_GROUPS.items()
                       if k not in groups})
    out = []
    offs = [(0.0, 0.0, 0.0), (1.2, 0.0, 0.0), (-0.4, 1.1, 0.0)]
    for k, (res, names) in enumerate(sorted(groups.items())):
        base = np.array([30.0 + 12.0 * (k % 4), 30.0 + 12.0 * (k // 4), 30.0])
        for j, nm in enumerate(names):
            out.append(build.BAtom(
                name=nm, res_name=res, chain="A", res_seq=300 + k, icode="",
                xyz=base + np.array(offs[j]), record="HETATM", res_idx=-1))
    return out


def run_e2e(case):
    ff = case["ff"]
    optname = case["opt"]
    opts = list(OPTION_SETS[optname]) + [f"--ff={ff}"]
    desc = dict(case["desc"])
    if optname == "assign_only_h":
        desc["hydrogens"] = True
    if case["kind"] == "host":
        atoms, info = corpus.build_host(desc)
    elif case["kind"] == "mixed":
        atoms, info = corpus.build_mixed(desc["name"],
                                         hydrogens=desc.get("hydrogens", False))
    elif case["kind"] == "hetero":
        atoms, info = corpus.build_host({"x": desc["x"], "pos": "mid"})
        atoms += hetero_groups(ff, desc["groups"])
    else:
        atoms = build.build_strand(desc["seq"], naming=desc["naming"],
                                   hydrogens=desc.get("hydrogens", False))
        n = len(desc["seq"])
        info = []
        for i, name in enumerate(desc["seq"]):
            st = name + ("5" if i == 0 else "") + ("3" if i == n - 1 else "")
            info.append({"kind": "na", "input": name, "state": st,
                         "res_seq": 1 + i})
    text = build.pdb_text(atoms)
    r = pipeline.run(text, opts)
    res = {"evals": 1, "violations": [], "events": {}, "nontrivial": []}
    if not r.ok:
        # success is C12's business; C01 only records that nothing was checked
        k = f"run-failed:{r.exc[0]}"
        res["events"][k] = 1
        return res
    viol, events, cells = check_assignment(r, info, ff, opts)
    res["events"] = events
    res["nontrivial"] = sorted(cells)
    seen = set()
    for sig, detail in viol:
        if sig in seen:
            continue
        seen.add(sig)
        res["violations"].append({"sig": sig, "detail": detail})
    return res


def run_userff(case):
    """End to end with a user-supplied pair (bundled custom-ff.dat /
    custom.names or a generated pair): parameters as resolved by ff_ref."""
    from ..engine import REPO

    _aa, _na, _p, canonical = T.load()
    if case["pair"] == "bundled":
        dat = (REPO / "tests/data/custom-ff.dat").read_text()
        nam = (REPO / "tests/data/custom.names").read_text()
    else:
        dat = USER_DAT
        nam = names_text(case["program"])
    d = engine.scratch_dir()
    (d / "u.dat").write_text(dat)
    (d / "u.names").write_text(nam)
    table = ff_ref.resolve(d / "u.dat", d / "u.names", list(canonical))
    atoms, info = corpus.build_host(case["desc"])
    r = pipeline.run(build.pdb_text(atoms),
                     ["--userff=@u.dat", "--usernames=@u.names"],
                     files={"u.dat": dat, "u.names": nam})
    res = {"evals": 1, "violations": [], "events": {}, "nontrivial": []}
    if not r.ok:
        res["events"][f"userff-run-failed:{r.exc[0]}"] = 1
        return res
    viol, events, cells = check_assignment(r, info, "USER", [], table,
                                           tag="-userff:" + case["pair"])
    res["events"] = events
    res["nontrivial"] = sorted(cells)
    seen = set()
    for sig, detail in viol:
        if sig not in seen:
            seen.add(sig)
            res["violations"].append({"sig": sig, "detail": detail})
    return res


def run_userff_sequence(case):
    """A-B-C-A history of user force-field pairs in ONE process: a second
    pair must not see anything of the first (parameters are a function of
    the files given to this run)."""
    out = {"evals": 0, "violations": [], "events": {}, "nontrivial": []}
    seen = set()
    for k, step in enumerate(case["steps"]):
        sub = dict(step, mode="userff", desc=case["desc"])
        r = run_userff(sub)
        out["evals"] += r["evals"]
        out["nontrivial"] += r["nontrivial"]
        for ev, n in r["events"].items():
            out["events"][ev] = out["events"].get(ev, 0) + n
        for v in r["violations"]:
            sig = v["sig"].replace("C01/e2e-userff", f"C01/e2e-userff-seq@{k}")
            if sig not in seen:
                seen.add(sig)
                out["violations"].append({"sig": sig, "detail": v["detail"]})
    return out


def run_case(case):
    mode = case["mode"]
    if mode == "userff_sequence":
        return run_userff_sequence(case)
    if mode == "table":
        return run_table(case)
    if mode == "program":
        return run_program(case)
    if mode == "e2e":
        return run_e2e(case)
    if mode == "userff":
        return run_userff(case)
    raise ValueError(mode)


def enumerate_cases(tier, seed):
    cases = [{"mode": "table", "ff": ff} for ff in ff_ref.FORCE_FIELDS]
    maxlen = 3 if tier == "quick" else 4
    programs = [[]]
    for n in range(1, maxlen + 1):
        programs += [list(p) for p in itertools.product(TEMPLATE_ORDER, repeat=n)]
    chunk = 40
    for i in range(0, len(programs), chunk):
        cases.append({"mode": "program", "programs": programs[i:i + chunk]})
    for optname in ("default", "noopt_nodebump", "assign_only_h",
                    "whitespace"):
        for ff in corpus.FFS:
            for x in corpus.INPUT_NAMES:
                for pos in corpus.POSITIONS:
                    cases.append({"mode": "e2e", "kind": "host", "ff": ff,
                                  "opt": optname,
                                  "desc": {"x": x, "pos": pos,
                                           "waters": [[9.0, 9.0, 9.0]]}})
    if tier == "thorough":
        # hydrogenated inputs through the full pipeline (input hydrogens are
        # kept or rebuilt; parameters must not depend on that)
        for optname in ("default", "noopt_nodebump"):
            for ff in corpus.FFS:
                for x in corpus.INPUT_NAMES:
                    for pos in corpus.POSITIONS:
                        cases.append({"mode": "e2e", "kind": "host", "ff": ff,
                                      "opt": optname,
                                      "desc": {"x": x, "pos": pos,
                                               "hydrogens": True}})
    # several residues of every type in one chain
    for name in corpus.MIXED:
        for ff in corpus.FFS:
            for optname in ("default", "noopt_nodebump", "assign_only_h"):
                cases.append({"mode": "e2e", "kind": "mixed", "ff": ff,
                              "opt": optname, "desc": {"name": name}})
    # hetero groups: ions / small groups the force field has entries for are
    # written with them; unknown groups are omitted and reported
    for ff in corpus.FFS:
        for which in ("known", "unknown", "both"):
            for optname in ("default", "whitespace"):
                cases.append({"mode": "e2e", "kind": "hetero", "ff": ff,
                              "opt": optname,
                              "desc": {"x": "SER", "groups": which}})
    # neutral termini (PARSE only): NEUTRAL-N* / NEUTRAL-C* parameter sets
    for optname in ("neutraln", "neutralc", "neutral_both"):
        for x in corpus.INPUT_NAMES:
            for pos in ("n", "c"):
                cases.append({"mode": "e2e", "kind": "host", "ff": "PARSE",
                              "opt": optname, "desc": {"x": x, "pos": pos}})
    strands = [(["DA", "DT", "DG"], "legacy"), (["DC", "DG", "DA"], "modern"),
               (["RA", "RU", "RG"], "legacy"), (["RC", "RG", "RU"], "short"),
               (["DT", "DC"], "legacy"), (["RU", "RC"], "modern")]
    for seq, naming in strands:
        for ff in corpus.FFS:
            for optname in ("default", "noopt_nodebump"):
                cases.append({"mode": "e2e", "kind": "strand", "ff": ff,
                              "opt": optname,
                              "desc": {"seq": seq, "naming": naming}})
    for x in ("GLY", "ALA", "SER", "HIS", "CYS", "LYS"):
        for pos in corpus.POSITIONS:
            cases.append({"mode": "userff", "pair": "bundled",
                          "desc": {"x": x, "pos": pos,
                                   "waters": [[9.0, 9.0, 9.0]]}})
    # histories of user pairs inside one process (A, B, C, A)
    for x in ("GLY", "ALA"):
        for pos in corpus.POSITIONS:
            cases.append({
                "mode": "userff_sequence", "desc": {"x": x, "pos": pos},
                "steps": [{"pair": "bundled"},
                          {"pair": "generated",
                           "program": ["literal", "regex_prefix", "alias"]},
                          {"pair": "generated",
                           "program": ["literal", "alias", "alias_chain",
                                       "overlay"]},
                          {"pair": "bundled"}]})
    for program in (["literal", "regex_prefix", "alias"],
                    ["literal", "alias", "alias_chain", "overlay"]):
        for x in ("GLY", "ALA"):
            for pos in corpus.POSITIONS:
                cases.append({"mode": "userff", "pair": "generated",
                              "program": program,
                              "desc": {"x": x, "pos": pos}})
    return cases
