"""Driver for end-to-end pdb2pqr runs from the harness (no source hooks).

run() writes the input into the per-worker scratch directory, calls
pdb2pqr.main.run_pdb2pqr (the programmatic entry point) with the given
options, captures WARNING+ log records, and returns everything a check may
want to look at.  monitor() wraps a function or method of the implementation
for the duration of a with-block.
"""

import contextlib
import logging
import os

from . import engine


class Capture(logging.Handler):
    def __init__(self):
        super().__init__(level=logging.WARNING)
        self.records = []

    def emit(self, record):
        try:
            self.records.append((record.levelname, record.name,
                                 record.getMessage()))
        except Exception:  # pragma: no cover
            self.records.append((record.levelname, record.name, "<unformattable>"))


_CAPTURE = None


def _capture():
    """Install one capturing handler on the root logger; INFO/DEBUG stay
    disabled for speed, WARNING+ are recorded (not printed)."""
    global _CAPTURE
    if _CAPTURE is None:
        _CAPTURE = Capture()
        root = logging.getLogger()
        root.addHandler(_CAPTURE)
        root.setLevel(logging.WARNING)
    logging.disable(logging.INFO)
    return _CAPTURE


class Result:
    def __init__(self):
        self.ok = False
        self.exc = None  # (type name, message)
        self.exc_obj = None
        self.missed = None
        self.pka = None
        self.bm = None
        self.pqr_text = None
        self.warnings = []
        self.out_path = None
        self.in_path = None
        self.argv = None

    def pqr_atoms(self, whitespace=False):
        from .refs import pqr_ref

        if self.pqr_text is None:
            return []
        return pqr_ref.parse(self.pqr_text, whitespace=whitespace)

    def warned(self, needle):
        return [m for _l, _n, m in self.warnings if needle in m]


def run(text, opts=(), *, input_name="in.pdb", files=None, out_name="out.pqr",
        pre_existing=None, want_text=True, old_mtime=None):
    """Run pdb2pqr on `text` with option list `opts`.

    files: {name: text} extra files written next to the input; occurrences of
    "@name" in opts are replaced by their paths.
    pre_existing: bytes to place at the output path before the run.
    """
    from pdb2pqr import main

    cap = _capture()
    cap.records = []
    d = engine.scratch_dir()
    res = Result()
    inp = d / input_name
    out = d / out_name
    with open(inp, "w", newline="") as f:
        f.write(text)
    paths = {}
    for name, content in (files or {}).items():
        p = d / name
        with open(p, "w", newline="") as f:
            f.write(content)
        paths["@" + name] = str(p)
    if out.exists():
        out.unlink()
    if pre_existing is not None:
        out.write_bytes(pre_existing)
        if old_mtime is not None:
            os.utime(out, (old_mtime, old_mtime))
    argv = []
    for o in opts:
        o = str(o)
        for k, v in paths.items():
            o = o.replace(k, v)
        if "@out:" in o:
            # "@out:NAME" (alone or after "--option=") -> path in scratch dir
            head, _, name = o.partition("@out:")
            o = head + str(d / name)
        argv.append(o)
    argv += [str(inp), str(out)]
    res.argv = argv
    res.in_path, res.out_path = inp, out
    try:
        missed, pka, bm = main.run_pdb2pqr(argv)
        res.ok = True
        res.missed, res.pka, res.bm = missed, pka, bm
    except SystemExit as exc:  # argparse errors
        res.exc = ("SystemExit", str(exc.code))
        res.exc_obj = exc
    except BaseException as exc:
        res.exc = (type(exc).__name__, str(exc)[:300])
        res.exc_obj = exc
    res.warnings = list(cap.records)
    if want_text and out.exists():
        res.pqr_text = out.read_text()
    return res


@contextlib.contextmanager
def monitor(owner, name, *, before=None, after=None, replace=None):
    """Wrap owner.name for the duration of the block.

    before(args, kwargs) -> token; after(token, args, kwargs, result).
    replace(orig, *args, **kwargs) substitutes the call entirely."""
    orig = getattr(owner, name)

    def wrapper(*args, **kwargs):
        if replace is not None:
            return replace(orig, *args, **kwargs)
        token = before(args, kwargs) if before else None
        result = orig(*args, **kwargs)
        if after:
            after(token, args, kwargs, result)
        return result

    wrapper.__wrapped__ = orig
    setattr(owner, name, wrapper)
    try:
        yield
    finally:
        setattr(owner, name, orig)


@contextlib.contextmanager
def monitors(specs):
    """specs: list of (owner, name, dict(before=, after=, replace=))."""
    with contextlib.ExitStack() as stack:
        for owner, name, kw in specs:
            stack.enter_context(monitor(owner, name, **kw))
        yield


def inject_pka(rows):
    """Context manager replacing main.run_propka by a harness table.

    rows: list of dicts with res_num, ins_code, res_name, chain_id,
    group_label, pKa (PROPKA's own row shape)."""
    from pdb2pqr import main

    return monitor(main, "run_propka",
                   replace=lambda orig, args, bm: (list(rows), ""))
