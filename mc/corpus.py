"""Shared structure corpus: case descriptors -> input text + harness knowledge,
and the reference state / formal-charge models used by several checks."""

import numpy as np

from . import build
from .refs import templates as T

FFS = ["AMBER", "CHARMM", "PARSE", "TYL06", "PEOEPB", "SWANSON"]
NUCLEIC_FFS = ["AMBER", "CHARMM", "TYL06"]  # + PARSE for RNA
INPUT_NAMES = list(T.AMINO) + ["ASH", "GLH", "HID", "HIE", "HIP", "HSD", "HSE",
                               "HSP", "CYM", "CYX", "LYN", "TYM", "AR0"]
POSITIONS = ("n", "mid", "c")

# formal charge of side-chain states
SIDE_CHARGE = {
    "ASP": -1, "ASH": 0, "GLU": -1, "GLH": 0, "HIP": 1, "HID": 0, "HIE": 0,
    "CYS": 0, "CYM": -1, "CYX": 0, "LYS": 1, "LYN": 0, "TYR": 0, "TYM": -1,
    "ARG": 1, "AR0": 0,
}


def host_sequence(x, position):
    if position == "n":
        return [x, "ALA", "ALA"], 0
    if position == "mid":
        return ["ALA", x, "ALA"], 1
    return ["ALA", "ALA", x], 2


def build_host(desc):
    """desc: {x, pos, hydrogens?, waters?, numbering?, chain?}
    -> (atoms, info) ; info[i] = harness knowledge about residue i."""
    seq, idx = host_sequence(desc["x"], desc["pos"])
    atoms = build.build_peptide(
        seq, chain=desc.get("chain", "A"), start=desc.get("start", 1),
        hydrogens=desc.get("hydrogens", False), oxt=desc.get("oxt", True),
        omit=desc.get("omit"))
    info = []
    n = len(seq)
    for i, name in enumerate(seq):
        info.append({
            "kind": "aa", "input": name,
            "position": "n" if i == 0 else "c" if i == n - 1 else "mid",
            "chain": desc.get("chain", "A"), "res_seq": desc.get("start", 1) + i,
            "target": i == idx,
        })
    for k, xyz in enumerate(desc.get("waters", [])):
        atoms.append(build.water(xyz, 100 + k))
        if desc.get("hydrogens", False) or desc.get("water_h"):
            wat = T.load()[0]["WAT"]
            o = np.array(wat.atoms["O"].xyz)
            for hn in (desc.get("water_h") or ("H1", "H2")):
                h = np.array(wat.atoms[hn].xyz) - o + np.asarray(xyz, float)
                atoms.append(build.water(h, 100 + k, name=hn))
        info.append({"kind": "wat", "input": "HOH", "position": None,
                     "chain": "W", "res_seq": 100 + k, "target": False})
    return atoms, info


# side-chain states an input residue name may end in when no pKa-driven
# titration is requested (HIS: whichever tautomer the optimiser picks)
ALLOWED_STATES = {
    "HIS": {"HID", "HIE"}, "HID": {"HID"}, "HSD": {"HID"}, "HIE": {"HIE"},
    "HSE": {"HIE"}, "HIP": {"HIP"}, "HSP": {"HIP"},
    # bridging is decided by geometry (C13), not by the residue name
    "CYS": {"CYS", "CYX"}, "CYX": {"CYS", "CYX"},
}


def allowed_states(input_name):
    return ALLOWED_STATES.get(
        input_name, {T.base_of(input_name) if input_name in T.AMINO
                     else input_name})


def state_ref(input_name, position, atom_names, *, neutraln=False,
              neutralc=False):
    """Canonical state-qualified name of an amino-acid residue, inferred from
    what the harness built (input residue name, chain position, options) and
    the atoms finally present - not from the implementation's ffname."""
    base = T.base_of(input_name)
    names = set(atom_names)
    if base == "ASP":
        s = "ASH" if names & {"HD1", "HD2"} else "ASP"
    elif base == "GLU":
        s = "GLH" if names & {"HE1", "HE2"} else "GLU"
    elif base == "HIS":
        if {"HD1", "HE2"} <= names:
            s = "HIP"
        elif "HD1" in names:
            s = "HID"
        elif "HE2" in names:
            s = "HIE"
        else:
            s = "HIS?"
    elif base == "CYS":
        if "HG" in names:
            s = "CYS"
        elif input_name == "CYM":
            s = "CYM"
        else:
            s = "CYX"
    elif base == "LYS":
        s = "LYS" if {"HZ1", "HZ2", "HZ3"} <= names else "LYN"
    elif base == "TYR":
        s = "TYR" if "HH" in names else "TYM"
    elif base == "ARG":
        s = "ARG" if "HE" in names else "AR0"
    else:
        s = base
    if position in ("n", "nc"):
        # proline's ring nitrogen cannot take the neutral-amine naming
        if neutraln and base != "PRO":
            return "NEUTRAL-N" + s
        return "N" + s
    if position == "c":
        return ("NEUTRAL-C" if neutralc else "C") + s
    return s


def formal_charge(state):
    """Formal charge of a state-qualified amino-acid name."""
    q = 0
    s = state
    if s.startswith("NEUTRAL-N") or s.startswith("NEUTRAL-C"):
        s = s[9:]
    elif len(s) == 4 and s[0] == "N":
        q += 1
        s = s[1:]
    elif len(s) == 4 and s[0] == "C":
        q -= 1
        s = s[1:]
    return q + SIDE_CHARGE.get(s, 0)


def expected_atoms(state):
    """Atom names the topology defines for a state-qualified canonical name."""
    _aa, _na, _p, canonical = T.load()
    names = [a for a in canonical[state].atoms if a not in ("N+1", "C-1")]
    # ASH/GLH templates list both candidate proton positions (HD1/HD2,
    # HE1/HE2); a protonated acid carries one proton, named HD2 / HE2
    core = state[-3:]
    if core == "ASH":
        names = [a for a in names if a != "HD1"]
    elif core == "GLH":
        names = [a for a in names if a != "HE1"]
    return names


# ---------------------------------------------------------------------------
# chain layouts
# ---------------------------------------------------------------------------
LAYOUTS = ["one", "two", "three", "blank_ter", "blank_one_ter", "same_id_oxt",
           "lower",
           "neg", "high", "gap", "icode", "descending", "water_tail",
           "hetero_tail", "hidden_end", "len2", "five", "digit_ids",
           "hetero_head"]


def build_layout(layout, x, *, oxt=True):
    """Return (atoms, info, n_chain_ends) for a chain layout with residue x at
    every chain end.  info entries as in build_host plus 'end' in
    {None,'n','c'} (harness knowledge of real chain ends)."""
    chains = []  # (seq, chain_id, numbers, icodes, shift)
    seq = [x, "ALA", x]

    def nums(start):
        return [start, start + 1, start + 2]

    if layout == "one":
        chains = [(seq, "A", nums(1), None)]
    elif layout == "two":
        chains = [(seq, "A", nums(1), None), (seq, "B", nums(1), None)]
    elif layout == "three":
        chains = [(seq, "A", nums(1), None), (seq, "B", nums(11), None),
                  (seq, "C", nums(21), None)]
    elif layout in ("blank_ter", "blank_one_ter"):
        chains = [(seq, "", nums(1), None), (seq, "", nums(11), None)]
    elif layout == "same_id_oxt":
        chains = [(seq, "A", nums(1), None), (seq, "A", nums(11), None)]
    elif layout == "lower":
        chains = [(seq, "a", nums(1), None), (seq, "b", nums(1), None)]
    elif layout == "neg":
        chains = [(seq, "A", nums(-3), None)]
    elif layout == "high":
        chains = [(seq, "A", nums(9997), None)]
    elif layout == "gap":
        chains = [(seq, "A", [1, 2, 40], None)]
    elif layout == "icode":
        chains = [(seq, "A", [10, 10, 10], ["", "A", "B"])]
    elif layout == "descending":
        chains = [(seq, "A", [5, 4, 3], None)]
    elif layout in ("water_tail", "hetero_tail", "hetero_head"):
        chains = [(seq, "A", nums(1), None)]
    elif layout == "hidden_end":
        chains = [(seq, "A", nums(1), None), (seq, "A", nums(4), None)]
    elif layout == "len2":  # every residue is a chain end
        chains = [([x, x], "A", [1, 2], None), ([x, x], "B", [1, 2], None)]
    elif layout == "five":
        chains = [(seq, c, nums(1 + 10 * k), None)
                  for k, c in enumerate("ABCDE")]
    elif layout == "digit_ids":
        chains = [(seq, "1", nums(1), None), (seq, "2", nums(1), None)]
    else:
        raise ValueError(layout)
    atoms, info = [], []
    for ci, (s, cid, numbers, icodes) in enumerate(chains):
        part = build.build_peptide(s, chain=cid, numbers=numbers,
                                   icodes=icodes, oxt=oxt,
                                   origin=(0.0, 0.0, 18.0 * ci))
        if layout == "hidden_end":
            for a in part:
                a["_noter"] = True
        atoms += part
        for i, name in enumerate(s):
            info.append({"kind": "aa", "input": name,
                         "position": "n" if i == 0 else "c" if i == len(s) - 1
                         else "mid", "chain": cid, "res_seq": numbers[i],
                         "icode": icodes[i] if icodes else "",
                         "chain_index": ci})
    if layout == "water_tail":
        w = build.water((9.0, 9.0, 9.0), 4, chain="A")
        atoms.append(w)
        info.append({"kind": "wat", "input": "HOH", "position": None,
                     "chain": "A", "res_seq": 4, "icode": ""})
    if layout == "hetero_head":
        # an ion carrying the chain id, listed before the chain
        atoms.insert(0, build.BAtom(name="ZN", res_name="ZN", chain="A",
                                    res_seq=0, icode="",
                                    xyz=np.array([12.0, 9.0, 9.0]),
                                    record="HETATM", res_idx=-1))
        info.append({"kind": "het", "input": "ZN", "position": None,
                     "chain": "A", "res_seq": 0, "icode": ""})
    if layout == "hetero_tail":
        atoms.append(build.BAtom(name="ZN", res_name="ZN", chain="A",
                                 res_seq=4, icode="",
                                 xyz=np.array([12.0, 9.0, 9.0]),
                                 record="HETATM", res_idx=-1))
        info.append({"kind": "het", "input": "ZN", "position": None,
                     "chain": "A", "res_seq": 4, "icode": ""})
    return atoms, info, 2 * len(chains)


def layout_text(layout, atoms):
    if layout == "hidden_end":
        return build.pdb_text(atoms, ter=False)
    text = build.pdb_text(atoms)
    if layout == "blank_one_ter":
        # exactly one TER: between the chains, none after the last one
        lines = text.splitlines()
        last = max(i for i, l in enumerate(lines) if l.startswith("TER"))
        del lines[last]
        text = "\n".join(lines) + "\n"
    return text


# ---------------------------------------------------------------------------
# mixed structures: every residue type several times in one chain, so that
# anything shared between residues of one type (topology references, caches)
# is exercised with residues in different states / positions
# ---------------------------------------------------------------------------
MIXED = {
    "all20x2": list(T.AMINO) + list(reversed(T.AMINO)),
    "states": ["ASP", "ASH", "ASP", "GLU", "GLH", "GLU", "HIS", "HIP", "HID",
               "HIE", "HIS", "CYS", "CYM", "CYS", "LYS", "LYN", "LYS", "TYR",
               "TYM", "TYR", "ARG", "AR0", "ARG"],
    "ends": ["LYS", "ALA", "LYS", "ASP", "GLY", "ASP", "CYS", "SER", "CYS"],
}


def build_mixed(name, *, hydrogens=False):
    seq = MIXED[name]
    atoms = build.build_peptide(seq, hydrogens=hydrogens)
    n = len(seq)
    info = [{"kind": "aa", "input": x,
             "position": "n" if i == 0 else "c" if i == n - 1 else "mid",
             "chain": "A", "res_seq": 1 + i, "icode": ""}
            for i, x in enumerate(seq)]
    return atoms, info
