"""Shared structure corpus: case descriptors -> input text + harness knowledge,
and the reference state / formal-charge models used by several checks."""

import numpy as np

from . import build
from .refs import templates as T

FFS = ["AMBER", "CHARMM", "PARSE", "TYL06", "PEOEPB", "SWANSON"]
NUCLEIC_FFS = ["AMBER", "CHARMM", "TYL06"]  # + PARSE for RNA
INPUT_NAMES = list(T.AMINO) + ["ASH", "GLH", "HID", "HIE", "HIP", "HSD", "HSE",
                               "HSP", "CYM", "CYX", "LYN", "TYM", "AR0"]
POSITIONS = ("n", "mid", "c")

# formal charge of side-chain states
SIDE_CHARGE = {
    "ASP": -1, "ASH": 0, "GLU": -1, "GLH": 0, "HIP": 1, "HID": 0, "HIE": 0,
    "CYS": 0, "CYM": -1, "CYX": 0, "LYS": 1, "LYN": 0, "TYR": 0, "TYM": -1,
    "ARG": 1, "AR0": 0,
}


def host_sequence(x, position):
    if position == "n":
        return [x, "ALA", "ALA"], 0
    if position == "mid":
        return ["ALA", x, "ALA"], 1
    return ["ALA", "ALA", x], 2


def build_host(desc):
    """desc: {x, pos, hydrogens?, waters?, numbering?, chain?}
    -> (atoms, info) ; info[i] = harness knowledge about residue i."""
    seq, idx = host_sequence(desc["x"], desc["pos"])
    atoms = build.build_peptide(
        seq, chain=desc.get("chain", "A"), start=desc.get("start", 1),
        hydrogens=desc.get("hydrogens", False), oxt=desc.get("oxt", True),
        omit=desc.get("omit"))
    info = []
    n = len(seq)
    for i, name in enumerate(seq):
        info.append({
            "kind": "aa", "input": name,
            "position": "n" if i == 0 else "c" if i == n - 1 else "mid",
            "chain": desc.get("chain", "A"), "res_seq": desc.get("start", 1) + i,
            "target": i == idx,
        })
    for k, xyz in enumerate(desc.get("waters", [])):
        atoms.append(build.water(xyz, 100 + k))
        if desc.get("hydrogens", False):
            wat = T.load()[0]["WAT"]
            o = np.array(wat.atoms["O"].xyz)
            for hn in ("H1", "H2"):
                h = np.array(wat.atoms[hn].xyz) - o + np.asarray(xyz, float)
                atoms.append(build.water(h, 100 + k, name=hn))
        info.append({"kind": "wat", "input": "HOH", "position": None,
                     "chain": "W", "res_seq": 100 + k, "target": False})
    return atoms, info


def state_ref(input_name, position, atom_names, *, neutraln=False,
              neutralc=False):
    """Canonical state-qualified name of an amino-acid residue, inferred from
    what the harness built (input residue name, chain position, options) and
    the atoms finally present - not from the implementation's ffname."""
    base = T.base_of(input_name)
    names = set(atom_names)
    if base == "ASP":
        s = "ASH" if names & {"HD1", "HD2"} else "ASP"
    elif base == "GLU":
        s = "GLH" if names & {"HE1", "HE2"} else "GLU"
    elif base == "HIS":
        if {"HD1", "HE2"} <= names:
            s = "HIP"
        elif "HD1" in names:
            s = "HID"
        elif "HE2" in names:
            s = "HIE"
        else:
            s = "HIS?"
    elif base == "CYS":
        if "HG" in names:
            s = "CYS"
        elif input_name == "CYM":
            s = "CYM"
        else:
            s = "CYX"
    elif base == "LYS":
        s = "LYS" if {"HZ1", "HZ2", "HZ3"} <= names else "LYN"
    elif base == "TYR":
        s = "TYR" if "HH" in names else "TYM"
    elif base == "ARG":
        s = "ARG" if "HE" in names else "AR0"
    else:
        s = base
    if position in ("n", "nc"):
        # proline's ring nitrogen cannot take the neutral-amine naming
        if neutraln and base != "PRO":
            return "NEUTRAL-N" + s
        return "N" + s
    if position == "c":
        return ("NEUTRAL-C" if neutralc else "C") + s
    return s


def formal_charge(state):
    """Formal charge of a state-qualified amino-acid name."""
    q = 0
    s = state
    if s.startswith("NEUTRAL-N") or s.startswith("NEUTRAL-C"):
        s = s[9:]
    elif len(s) == 4 and s[0] == "N":
        q += 1
        s = s[1:]
    elif len(s) == 4 and s[0] == "C":
        q -= 1
        s = s[1:]
    return q + SIDE_CHARGE.get(s, 0)


def expected_atoms(state):
    """Atom names the topology defines for a state-qualified canonical name."""
    _aa, _na, _p, canonical = T.load()
    return [a for a in canonical[state].atoms if a not in ("N+1", "C-1")]
