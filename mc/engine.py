"""Bounded exhaustive explorer: shared runner for all checks.

A check module provides

    PROPERTY = "C07"
    LEVEL = "model_checking" | "exploration" | "fault_enumeration"
    def enumerate_cases(tier, seed) -> iterable of JSON-able case descriptors
    def run_case(case) -> dict with optional keys
        violations : [ {"sig": str, "detail": ..., "case": replayable}, ... ]
        events     : [str, ...] or {str: n}  distinct observed outcomes
        nontrivial : str or list of them (distinct non-trivial keys)
        evals      : int            executions on the real code (default 1)
        states, transitions : int   for explicit-state sub-searches
    def finish(ctx) (optional)      extra evidence / coverage whitelist
    def run(ctx) (optional)         drive ctx.explore() several times itself

The engine enumerates *every* case the check yields, executes each on the real
implementation in persistent worker processes, aggregates, matches violations
against /verif/known_findings.json, confirms new violations in fresh
subprocesses, and writes /verif/evidence/<id>.json.
"""

from __future__ import annotations

import fnmatch
import hashlib
import importlib
import json
import logging
import multiprocessing as mp
import os
import shutil
import subprocess
import sys
import tempfile
import time
import traceback
from collections import Counter, OrderedDict
from pathlib import Path

VERIF = Path(__file__).resolve().parent.parent
REPO = Path(os.environ.get("VERIF_REPO", "/repo"))
EVIDENCE_DIR = VERIF / "evidence"
VIOLATION_DIR = VERIF / "violations"
KNOWN_FILE = VERIF / "known_findings.json"
PY = sys.executable
NPROC = int(os.environ.get("VERIF_JOBS", str(min(16, os.cpu_count() or 1))))
SCRATCH_PREFIX = "verif-mc-"


# ----------------------------------------------------------------------------
# environment discipline
# ----------------------------------------------------------------------------
def pin_environment(module, argv):
    """Re-exec once with a pinned hash seed so enumeration and the library's
    set/dict iteration are reproducible."""
    if os.environ.get("PYTHONHASHSEED") != "0" and not os.environ.get(
        "VERIF_NOREEXEC"
    ):
        env = dict(os.environ)
        env["PYTHONHASHSEED"] = "0"
        env["VERIF_NOREEXEC"] = "1"
        os.execve(PY, [PY, "-m", module] + list(argv), env)


def assert_repo_import():
    import pdb2pqr

    here = Path(pdb2pqr.__file__).resolve()
    if REPO.resolve() not in here.parents:
        raise SystemExit(
            f"pdb2pqr imported from {here}, expected under {REPO} "
            "(checks must run against /repo's working tree)"
        )


def quiet_logging():
    logging.disable(logging.CRITICAL)


# ----------------------------------------------------------------------------
# scratch space: always a freshly created directory whose name starts with
# SCRATCH_PREFIX under /dev/shm (or $TMPDIR); nothing else is ever removed.
# ----------------------------------------------------------------------------
_ROOT = None  # created by the parent process
_SCRATCH = None
_SCRATCH_PID = None


def _safe_root(p):
    p = Path(p)
    return (
        p.is_absolute()
        and p.name.startswith(SCRATCH_PREFIX)
        and p.parent in (Path("/dev/shm"), Path(tempfile.gettempdir()))
    )


def scratch_root() -> Path:
    global _ROOT
    if _ROOT is None:
        env = os.environ.get("VERIF_SCRATCH_ROOT")
        if env and _safe_root(env) and Path(env).is_dir():
            _ROOT = Path(env)
        else:
            base = "/dev/shm" if Path("/dev/shm").is_dir() else None
            _ROOT = Path(tempfile.mkdtemp(prefix=SCRATCH_PREFIX, dir=base))
    return _ROOT


def scratch_dir() -> Path:
    """Per-process scratch directory outside /repo and /verif."""
    global _SCRATCH, _SCRATCH_PID
    if _SCRATCH is None or _SCRATCH_PID != os.getpid():
        _SCRATCH = scratch_root() / f"w{os.getpid()}"
        _SCRATCH.mkdir(parents=True, exist_ok=True)
        _SCRATCH_PID = os.getpid()
    return _SCRATCH


def remove_scratch():
    global _ROOT, _SCRATCH
    if _ROOT is not None and _safe_root(_ROOT):
        shutil.rmtree(_ROOT, ignore_errors=True)
    _ROOT = None
    _SCRATCH = None


# ----------------------------------------------------------------------------
# worker side
# ----------------------------------------------------------------------------
_MOD = None


def _worker_init(modname, root):
    global _MOD, _ROOT, _SCRATCH
    _ROOT = Path(root)
    _SCRATCH = None
    os.environ["VERIF_SCRATCH_ROOT"] = str(root)
    quiet_logging()
    _MOD = importlib.import_module(modname)
    if hasattr(_MOD, "worker_init"):
        _MOD.worker_init()


def _worker_run(item):
    idx, case = item
    t0 = time.perf_counter()
    try:
        res = _MOD.run_case(case) or {}
    except BaseException as exc:  # harness failure, never swallowed
        res = {
            "harness_error": f"{type(exc).__name__}: {exc}",
            "traceback": traceback.format_exc(),
        }
    res["_idx"] = idx
    res["_t"] = time.perf_counter() - t0
    return res


# ----------------------------------------------------------------------------
# known findings
# ----------------------------------------------------------------------------
def load_known(prop):
    if not KNOWN_FILE.exists():
        return []
    data = json.loads(KNOWN_FILE.read_text())
    return [
        e
        for e in data.get("findings", [])
        if e.get("property") == prop and e.get("status") == "known"
    ]


def match_known(known, sig):
    for e in known:
        pat = e["signature"]
        if pat == sig or fnmatch.fnmatchcase(sig, pat):
            return e
    return None


# ----------------------------------------------------------------------------
# context / aggregation
# ----------------------------------------------------------------------------
class Ctx:
    def __init__(self, mod, tier, seed):
        self.mod = mod
        self.prop = mod.PROPERTY
        self.level = mod.LEVEL
        self.tier = tier
        self.seed = seed
        self.t0 = time.time()
        self.evaluations = 0
        self.cases = 0
        self.states = 0
        self.transitions = 0
        self.nontrivial = set()
        self.events = Counter()
        self.samples = []
        self.violations = OrderedDict()  # sig -> list of (case, detail)
        self.harness_errors = []
        self.extra = {}
        self.assumptions = list(getattr(mod, "ASSUMPTIONS", []))
        self.exhaustive = True
        self.cap_note = None
        b = getattr(mod, "BOUND", None)
        self.bound = b.get(tier) if isinstance(b, dict) else b

    # -- aggregation -----------------------------------------------------
    def absorb(self, case, res):
        self.cases += 1
        if "harness_error" in res:
            self.harness_errors.append(
                {"case": case, "error": res["harness_error"],
                 "traceback": res.get("traceback", "")}
            )
            return
        self.evaluations += int(res.get("evals", 1))
        self.states += int(res.get("states", 0))
        self.transitions += int(res.get("transitions", 0))
        nt = res.get("nontrivial")
        if nt is not None:
            if isinstance(nt, (list, tuple, set)):
                self.nontrivial.update(_h(x) for x in nt)
            else:
                self.nontrivial.add(_h(nt))
        evs = res.get("events", ())
        if isinstance(evs, dict):
            for k, n in evs.items():
                self.events[k] += n
        else:
            for k in evs:
                self.events[k] += 1
        for v in res.get("violations", ()):
            self.violations.setdefault(v["sig"], []).append(
                (v.get("case", case), v.get("detail"))
            )
        if "sample" in res and len(self.samples) < 6:
            self.samples.append(res["sample"])

    # -- parallel map ----------------------------------------------------
    def explore(self, cases, chunksize=None, budget_s=None):
        """Run every case (exhaustively) on the worker pool."""
        modname = self.mod.__name__
        cases = list(cases)
        if not cases:
            return
        if len(self.samples) < 3:
            self.samples.append(cases[0])
            if len(cases) > 2:
                self.samples.append(cases[len(cases) // 2])
        root = str(scratch_root())
        if chunksize is None:
            chunksize = max(1, min(32, len(cases) // (NPROC * 8) or 1))
        jobs = min(NPROC, len(cases))
        start = time.time()
        if jobs <= 1 or os.environ.get("VERIF_SERIAL"):
            _worker_init(modname, root)
            for i, c in enumerate(cases):
                self.absorb(c, _worker_run((i, c)))
                if budget_s and time.time() - start > budget_s:
                    self._capped(i + 1, len(cases), budget_s)
                    break
            return
        mpctx = mp.get_context("fork")
        with mpctx.Pool(jobs, _worker_init, (modname, root)) as pool:
            done = 0
            for res in pool.imap_unordered(
                _worker_run, enumerate(cases), chunksize
            ):
                self.absorb(cases[res["_idx"]], res)
                done += 1
                if budget_s and time.time() - start > budget_s:
                    self._capped(done, len(cases), budget_s)
                    pool.terminate()
                    break

    def _capped(self, done, total, budget_s):
        if done >= total:
            return
        self.exhaustive = False
        self.cap_note = (
            f"time cap {budget_s}s hit after {done} of {total} cases; "
            "enumeration is simplest-first, lower bounds completed before "
            "the cap are fully covered"
        )

    # -- direct reporting for checks that drive themselves ---------------
    def violation(self, sig, case, detail=None):
        self.violations.setdefault(sig, []).append((case, detail))

    def event(self, key, n=1):
        self.events[key] += n


def _h(x):
    if isinstance(x, str):
        return x
    return json.dumps(x, sort_keys=True, default=str)


# ----------------------------------------------------------------------------
# replay
# ----------------------------------------------------------------------------
def replay_case(modname, case):
    """Run one case without the explorer (fresh objects); return list of sigs."""
    quiet_logging()
    mod = importlib.import_module(modname)
    if hasattr(mod, "worker_init"):
        mod.worker_init()
    try:
        res = mod.run_case(case) or {}
    finally:
        remove_scratch()
    return [v["sig"] for v in res.get("violations", ())]


def confirm_in_fresh_process(modname, case):
    """Replay a case twice in fresh subprocesses; return the two sig lists."""
    code = (
        "import sys, json\n"
        "sys.path.insert(0, %r)\n"
        "from mc import engine\n"
        "case = json.loads(sys.stdin.read())\n"
        "print('SIGS=' + json.dumps(engine.replay_case(%r, case)))\n"
    ) % (str(VERIF), modname)
    outs = []
    for _ in range(2):
        env = dict(os.environ)
        env["PYTHONHASHSEED"] = "0"
        env.pop("VERIF_SCRATCH_ROOT", None)
        p = subprocess.run(
            [PY, "-c", code],
            input=json.dumps(case, default=str),
            capture_output=True,
            text=True,
            env=env,
            cwd=str(VERIF),
        )
        sigs = None
        for line in p.stdout.splitlines():
            if line.startswith("SIGS="):
                sigs = json.loads(line[5:])
        if sigs is None:
            sigs = ["REPLAY-FAILED: " + p.stderr[-300:]]
        outs.append(sigs)
    return outs


# ----------------------------------------------------------------------------
# main entry
# ----------------------------------------------------------------------------
def run_check(modname, tier, seed):
    assert_repo_import()
    quiet_logging()
    mod = importlib.import_module(modname)
    ctx = Ctx(mod, tier, seed)
    try:
        if hasattr(mod, "run"):
            mod.run(ctx)
        else:
            budget = getattr(mod, "BUDGET_S", {}).get(tier)
            ctx.explore(mod.enumerate_cases(tier, seed), budget_s=budget)
        if hasattr(mod, "finish"):
            mod.finish(ctx)
    finally:
        remove_scratch()
    return report(ctx)


MAX_REPORTED = 25


def report(ctx):
    prop = ctx.prop
    known = load_known(prop)
    new = []
    known_hit = OrderedDict()
    for sig, occ in ctx.violations.items():
        e = match_known(known, sig)
        if e is not None:
            known_hit.setdefault(e["signature"], [e, 0, sig])
            known_hit[e["signature"]][1] += len(occ)
        else:
            new.append((sig, occ))
    exit_code = 0
    vdir = VIOLATION_DIR / prop
    if vdir.is_dir():
        shutil.rmtree(vdir, ignore_errors=True)
    lines = []
    for pat, (e, n, sig) in known_hit.items():
        lines.append(
            f"KNOWN-FINDING: property={prop} {e['what_fails']} "
            f"[signature={pat} occurrences={n}]"
        )
    for sig, occ in new[:MAX_REPORTED]:
        case, detail = occ[0]
        outs = confirm_in_fresh_process(ctx.mod.__name__, case)
        reproduced = [sig in o for o in outs]
        vdir.mkdir(parents=True, exist_ok=True)
        name = hashlib.sha1(sig.encode()).hexdigest()[:10]
        path = vdir / f"{name}.json"
        path.write_text(
            json.dumps(
                {
                    "property": prop,
                    "module": ctx.mod.__name__,
                    "signature": sig,
                    "occurrences": len(occ),
                    "case": case,
                    "detail": detail,
                    "fresh_process_replays": outs,
                    "reproduced_in_fresh_process": reproduced,
                    "other_cases": [c for c, _ in occ[1:6]],
                    "replay": f"cd /verif && {PY} -m mc.replay {path}",
                },
                indent=1,
                default=str,
            )
        )
        lines.append(f"VIOLATION property={prop} replay={path}")
        lines.append(
            f"  signature={sig} occurrences={len(occ)} "
            f"reproduced_fresh={reproduced} detail={_short(detail)}"
        )
        exit_code = 1
    if len(new) > MAX_REPORTED:
        lines.append(
            f"  ... {len(new) - MAX_REPORTED} further new signatures: "
            + "; ".join(s for s, _ in new[MAX_REPORTED:MAX_REPORTED + 30])
        )
    for he in ctx.harness_errors[:5]:
        vdir.mkdir(parents=True, exist_ok=True)
        path = vdir / "harness_error.json"
        path.write_text(json.dumps(he, indent=1, default=str))
        lines.append(
            f"HARNESS-ERROR property={prop} {he['error']} "
            f"case={_short(he['case'])}\n{he.get('traceback', '')[-1500:]}"
        )
        exit_code = 2
    wall = time.time() - ctx.t0
    write_evidence(ctx, wall, len(new), known_hit)
    for line in lines:
        print(line)
    print(
        f"[{prop}] tier={ctx.tier} seed={ctx.seed} cases={ctx.cases} "
        f"evaluations={ctx.evaluations} states={ctx.states} "
        f"transitions={ctx.transitions} nontrivial={len(ctx.nontrivial)} "
        f"distinct_outcomes={len(ctx.events)} new_violations={len(new)} "
        f"known_findings={len(known_hit)} exhaustive={ctx.exhaustive} "
        f"wall={wall:.1f}s"
    )
    return exit_code


def _short(x, n=400):
    s = json.dumps(x, default=str) if not isinstance(x, str) else x
    return s if len(s) <= n else s[:n] + "..."


def write_evidence(ctx, wall, n_new, known_hit):
    EVIDENCE_DIR.mkdir(exist_ok=True)
    cov = {
        "evaluations": ctx.evaluations,
        "distinct_nontrivial": len(ctx.nontrivial),
        "rule": getattr(ctx.mod, "RULE", ""),
        "samples": [_trim(s) for s in ctx.samples[:6]] or ["<none>"],
        "exhaustive": bool(ctx.exhaustive),
        "cases_enumerated": ctx.cases,
        "traces_validated_against_impl": ctx.evaluations,
        "distinct_observed_outcomes": len(ctx.events),
        "observed_outcomes": dict(
            sorted(ctx.events.items(), key=lambda kv: (-kv[1], kv[0]))[:400]
        ),
        "known_findings_hit": {
            pat: {"occurrences": n, "example_signature": sig}
            for pat, (e, n, sig) in known_hit.items()
        },
    }
    if ctx.states or ctx.transitions:
        cov["states"] = ctx.states
        cov["transitions"] = ctx.transitions
    elif ctx.level == "model_checking":
        cov["states"] = max(1, len(ctx.nontrivial))
        cov["transitions"] = max(1, ctx.evaluations)
        cov["states_transitions_note"] = (
            "stateless exploration of the implementation: states = distinct "
            "non-trivial cases (see rule), transitions = executions of the "
            "real code"
        )
    if ctx.bound is not None:
        cov["bound_completed"] = ctx.bound
    if ctx.cap_note:
        cov["cap"] = ctx.cap_note
    cov.update(ctx.extra)
    ev = {
        "property_id": ctx.prop,
        "tier": ctx.tier,
        "seed": int(ctx.seed),
        "level": ctx.level,
        "coverage": cov,
        "assumptions": ctx.assumptions,
        "wall_s": round(wall, 2),
        "violations": n_new,
    }
    (EVIDENCE_DIR / f"{ctx.prop}.json").write_text(
        json.dumps(ev, indent=1, default=str) + "\n"
    )


def _trim(s, n=1500):
    t = json.dumps(s, default=str)
    if len(t) <= n:
        return s
    return t[:n] + "...(trimmed)"


def rotate(seq, seed):
    """Rotate an enumeration by the seed (never a sample: all items kept)."""
    seq = list(seq)
    if not seq:
        return seq
    k = seed % len(seq)
    return seq[k:] + seq[:k]
