"""Child process for C11: executes a history of runs in ONE fresh process and
prints, per run, the sha256 of the PQR bytes (or the failure class) and a
structural fingerprint of pdb2pqr's process-level state after the run."""
import hashlib
import json
import logging
import sys
import types


def fingerprint():
    """Canonical hash of module globals, class attributes, function defaults
    and logger filter state of every loaded pdb2pqr module."""
    items = []

    def canon(v, depth=0):
        if depth > 4:
            return "<deep>"
        if isinstance(v, (str, int, float, bool, type(None), bytes)):
            return repr(v)
        if isinstance(v, (list, tuple)):
            return "[" + ",".join(canon(x, depth + 1) for x in v) + "]"
        if isinstance(v, (set, frozenset)):
            return "{" + ",".join(sorted(canon(x, depth + 1) for x in v)) + "}"
        if isinstance(v, dict):
            return "{" + ",".join(sorted(
                canon(k, depth + 1) + ":" + canon(x, depth + 1)
                for k, x in v.items())) + "}"
        if isinstance(v, type):
            return "<class " + v.__module__ + "." + v.__qualname__ + ">"
        if isinstance(v, types.ModuleType):
            return "<module " + v.__name__ + ">"
        if isinstance(v, (types.FunctionType, types.MethodType)):
            return "<function " + getattr(v, "__qualname__", "?") + ">"
        return "<" + type(v).__name__ + ">"

    for name in sorted(sys.modules):
        if not name.startswith("pdb2pqr"):
            continue
        mod = sys.modules[name]
        for k in sorted(vars(mod)):
            if k.startswith("__"):
                continue
            v = vars(mod)[k]
            if isinstance(v, type) and v.__module__ == name:
                for ck in sorted(vars(v)):
                    if ck.startswith("__") and ck != "__init__":
                        continue
                    cv = vars(v)[ck]
                    if isinstance(cv, types.FunctionType):
                        items.append(f"{name}.{k}.{ck}.defaults="
                                     + canon(cv.__defaults__))
                    elif not isinstance(cv, (staticmethod, classmethod,
                                             property)):
                        items.append(f"{name}.{k}.{ck}=" + canon(cv))
            elif isinstance(v, types.FunctionType) and v.__module__ == name:
                items.append(f"{name}.{k}.defaults=" + canon(v.__defaults__))
            elif isinstance(v, logging.Logger):
                fl = []
                for f in v.filters:
                    fl.append(type(f).__name__ + canon(
                        dict(getattr(f, "warn_count", {}))))
                items.append(f"{name}.{k}.filters=" + ",".join(fl))
            else:
                items.append(f"{name}.{k}=" + canon(v))
    blob = "\n".join(items).encode()
    return hashlib.sha256(blob).hexdigest()[:16], len(items)


def main():
    spec = json.loads(sys.stdin.read())
    sys.path.insert(0, spec["verif"])
    logging.disable(logging.CRITICAL)
    from mc import engine, pipeline
    from mc.checks import c11

    out = []
    try:
        for rid in spec["history"]:
            r, meta = c11.execute(rid)
            if r.ok and r.pqr_text is not None:
                h = hashlib.sha256(r.pqr_text.encode()).hexdigest()
                extra = ""
                for name in meta.get("extra_outputs", []):
                    p = engine.scratch_dir() / name
                    if p.exists():
                        extra += hashlib.sha256(p.read_bytes()).hexdigest()[:8]
                res = {"run": rid, "ok": True, "sha": h, "extra": extra,
                       "len": len(r.pqr_text)}
            else:
                res = {"run": rid, "ok": False,
                       "exc": r.exc[0] if r.exc else None,
                       "out_exists": r.out_path.exists()}
            fp, n = fingerprint()
            res["fp"] = fp
            res["fp_items"] = n
            out.append(res)
    finally:
        engine.remove_scratch()
    print("C11RESULT=" + json.dumps(out))


if __name__ == "__main__":
    main()
