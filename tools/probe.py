#!/venv/bin/python
"""Ad-hoc probe: run an expression's cases through one check's run_case on the
worker pool and print events / violation signatures (no evidence written).

usage: probe.py C04 "s3.hood_cases('AMBER', ['1AJJ.pdb'])"
"""
import importlib
import json
import os
import sys

sys.path.insert(0, "/verif")
os.environ.setdefault("PYTHONHASHSEED", "0")
from mc import engine, s3, corpus, build  # noqa


def main():
    prop, expr = sys.argv[1], sys.argv[2]
    engine.quiet_logging()
    mod = importlib.import_module(f"mc.checks.{prop.lower()}")
    ctx = engine.Ctx(mod, "quick", 0)
    cases = eval(expr, {"s3": s3, "corpus": corpus, "build": build, "mod": mod})
    try:
        ctx.explore(cases)
    finally:
        engine.remove_scratch()
    print("cases", ctx.cases, "evals", ctx.evaluations, "nontrivial",
          len(ctx.nontrivial), "harness_errors", len(ctx.harness_errors))
    for e in ctx.harness_errors[:3]:
        print(e["error"], e["traceback"][-800:])
    ev = sorted(ctx.events.items(), key=lambda kv: -kv[1])
    lim = int(os.environ.get("PROBE_EVENTS", "40"))
    for k, n in ev[:lim]:
        print("  ev", n, k)
    for sig, lst in ctx.violations.items():
        print("VIOL", len(lst), sig, json.dumps(lst[0][0], default=str)[:200],
              json.dumps(lst[0][1], default=str)[:300])


if __name__ == "__main__":
    if os.environ.get("PYTHONHASHSEED") != "0":
        os.environ["PYTHONHASHSEED"] = "0"
        os.execv(sys.executable, [sys.executable] + sys.argv)
    main()
