#!/bin/bash
# Commit staged changes in /repo.  Two blobs of the pinned snapshot
# (tests/data/dx2cube.{cube,dx}) are absent from the object store, so the
# porcelain `git commit` cannot build a tree; plumbing with --missing-ok can.
# usage: repo_commit.sh <message-file>
set -e
cd /repo
tree=$(git write-tree --missing-ok)
parent=$(git rev-parse HEAD)
commit=$(git commit-tree "$tree" -p "$parent" -F "$1")
git update-ref HEAD "$commit"
git log --oneline -1
