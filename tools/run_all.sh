#!/bin/bash
# usage: tools/run_all.sh [tier] [seed]   - runs every check, prints one line each
cd "$(dirname "$0")/.."
tier=${1:-quick}; seed=${2:-0}
for c in C01 C02 C03 C04 C05 C06 C07 C08 C09 C10 C11 C12 C13 C14 C15 C16 C17 C18; do
  start=$(date +%s)
  out=$(VERIF_SEED=$seed timeout 3600 /venv/bin/python -m mc.run $c $tier 2>&1); rc=$?
  end=$(date +%s)
  nv=$(echo "$out" | grep -c "^VIOLATION")
  nk=$(echo "$out" | grep -c "^KNOWN-FINDING")
  echo "$c rc=$rc violations=$nv known=$nk wall=$((end-start))s :: $(echo "$out" | tail -1 | cut -c1-160)"
done
