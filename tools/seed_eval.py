#!/venv/bin/python
"""Apply a seeded change to /repo, run checks against it, undo it.

usage: seed_eval.py <patch.diff> [--tier quick] [--seed N] [--tree DIR] [C01 ...]
--tree DIR: evaluate in a scratch worktree DIR (pre-screening while /repo is in
use): the checks then import pdb2pqr from DIR (VERIF_REPO / PYTHONPATH).
Prints one line per check: rc, number of VIOLATION lines, first signatures.
/repo is always restored (git apply -R, then verified clean).
"""
import json
import os
import subprocess
import sys
import time

ALL = [f"C{n:02d}" for n in range(1, 19)]


def sh(cmd, **kw):
    return subprocess.run(cmd, shell=True, capture_output=True, text=True, **kw)


def main():
    args = sys.argv[1:]
    patch = os.path.abspath(args.pop(0))
    tier, seed, tree = "quick", "0", "/repo"
    checks = []
    while args:
        a = args.pop(0)
        if a == "--tier":
            tier = args.pop(0)
        elif a == "--seed":
            seed = args.pop(0)
        elif a == "--tree":
            tree = os.path.abspath(args.pop(0))
        else:
            checks.append(a.upper())
    checks = checks or ALL
    st = sh(f"git -C {tree} status --short")
    dirty = [l for l in st.stdout.splitlines() if "dx2cube" not in l]
    if dirty:
        print(f"refusing: {tree} is not clean:\n" + st.stdout)
        return 2
    r = sh(f"git -C {tree} apply {patch}")
    if r.returncode:
        print("patch does not apply:", r.stderr)
        return 2
    results = {}
    try:
        for c in checks:
            t0 = time.time()
            env = dict(os.environ, VERIF_SEED=seed)
            if tree != "/repo":
                env["VERIF_REPO"] = tree
                env["PYTHONPATH"] = tree
            p = subprocess.run(["/venv/bin/python", "-m", "mc.run", c, tier],
                               cwd="/verif", capture_output=True, text=True,
                               env=env)
            sigs = [l.split("signature=")[1].split(" ")[0]
                    for l in p.stdout.splitlines() if "signature=" in l]
            nviol = sum(1 for l in p.stdout.splitlines()
                        if l.startswith("VIOLATION"))
            more = [l for l in p.stdout.splitlines() if "further new sig" in l]
            herr = [l for l in p.stdout.splitlines() if l.startswith("HARNESS-ERROR")]
            results[c] = {"rc": p.returncode, "violations": nviol,
                          "signatures": sigs[:6], "wall": round(time.time() - t0),
                          "harness_error": herr[:1]}
            print(f"{c} rc={p.returncode} violations={nviol} "
                  f"wall={results[c]['wall']}s sigs={sigs[:3]} {herr[:1]}",
                  flush=True)
    finally:
        r = sh(f"git -C {tree} apply -R {patch}")
        if r.returncode:
            print("WARNING: reverse apply failed, using checkout:", r.stderr)
            sh(f"git -C {tree} checkout -- .")
        st = sh(f"git -C {tree} status --short")
        print("repo status after restore:", repr(st.stdout.strip()))
    print("RESULT=" + json.dumps(results))
    return 0


if __name__ == "__main__":
    sys.exit(main())
