#!/venv/bin/python
"""seed_reeval.py <id> <worktree> <checks...>: evaluate a filed seeded change
again (after a check was strengthened) and merge the result into its
meta.json; the earlier result is kept under checks_run_before_strengthening."""
import json
import subprocess
import sys

sid, tree = sys.argv[1:3]
checks = [c.upper() for c in sys.argv[3:]]
p = f"/verif/seeded/{sid}/meta.json"
m = json.load(open(p))
r = subprocess.run(["/venv/bin/python", "/verif/tools/seed_eval.py",
                    f"/verif/seeded/{sid}/patch.diff", "--tree", tree] + checks,
                   capture_output=True, text=True)
res = None
for line in r.stdout.splitlines():
    if line.startswith("RESULT="):
        res = json.loads(line[7:])
if res is None:
    print(r.stdout[-800:], r.stderr[-800:])
    sys.exit(2)
old = m.setdefault("checks_run_before_strengthening", {})
for c, v in res.items():
    if c in m["checks_run"] and c not in old and \
            m["checks_run"][c].get("rc") == 0 and v["rc"] == 1:
        old[c] = m["checks_run"][c]
    m["checks_run"][c] = v
if not old:
    m.pop("checks_run_before_strengthening")
m["detected_by"] = sorted(c for c, v in m["checks_run"].items() if v["rc"] == 1)
json.dump(m, open(p, "w"), indent=1)
print(sid, "detected_by", m["detected_by"],
      {c: v["signatures"][:4] for c, v in res.items()})
