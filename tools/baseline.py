#!/venv/bin/python
"""Run the repository's pinned baseline (fast: xdist, pinned hash seed) in a
given checkout and compare the set of passing tests with BASELINE.json.

usage: baseline.py [repo_dir]   exit 0 iff every stable_pass test passed.
"""
import json
import os
import subprocess
import sys
import tempfile
import xml.etree.ElementTree as ET

repo = sys.argv[1] if len(sys.argv) > 1 else "/repo"
base = json.load(open("/root/.vp/BASELINE.json"))
want = set(base["stable_pass"])
with tempfile.TemporaryDirectory(prefix="verif-mc-base-") as d:
    xml = os.path.join(d, "j.xml")
    env = dict(os.environ, PYTHONHASHSEED="0")
    env.pop("PDB2PQR_VERIF", None)
    cmd = ["/venv/bin/python", "-m", "pytest", "-q", "-p", "no:cacheprovider",
           "--timeout=900", "--continue-on-collection-errors", "-n", "16",
           f"--junitxml={xml}"]
    # when testing a scratch checkout, make it the imported package
    env["PYTHONPATH"] = repo
    p = subprocess.run(cmd, cwd=repo, env=env, capture_output=True, text=True)
    passed = set()
    for tc in ET.parse(xml).getroot().iter("testcase"):
        bad = any(c.tag in ("failure", "error", "skipped") for c in tc)
        name = f"{tc.get('classname')}::{tc.get('name')}"
        if not bad:
            passed.add(name)
missing = sorted(want - passed)
print(p.stdout.strip().splitlines()[-1])
print(f"baseline: {len(want & passed)}/{len(want)} stable tests passed")
for m in missing[:20]:
    print("  NOT PASSING:", m)
sys.exit(1 if missing else 0)
