#!/usr/bin/env python3-vt
"""Validate MANIFEST.json and evidence/*.json against the given schemas."""
import glob
import json
import sys

import jsonschema

ok = True
man = json.load(open("/verif/MANIFEST.json"))
try:
    jsonschema.validate(man, json.load(open("/root/.vp/MANIFEST.schema.json")))
    print("MANIFEST ok:", len(man["checks"]), "checks,",
          len(man.get("not_applicable", [])), "not_applicable")
except jsonschema.ValidationError as e:
    ok = False
    print("MANIFEST INVALID:", e.message)
sch = json.load(open("/root/.vp/EVIDENCE.schema.json"))
for f in sorted(glob.glob("/verif/evidence/*.json")):
    try:
        jsonschema.validate(json.load(open(f)), sch)
        print("evidence ok:", f)
    except jsonschema.ValidationError as e:
        ok = False
        print("evidence INVALID:", f, e.message)
sys.exit(0 if ok else 1)
