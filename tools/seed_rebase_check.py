#!/venv/bin/python
"""seed_rebase_check.py <id> <worktree>: re-confirm a filed seeded change
whose patch was rebased onto a newer /repo HEAD (demo before, apply,
151-test baseline, demo after, revert); the result is recorded in
meta.json under "rebased" (descriptive fields are kept)."""
import json
import os
import subprocess
import sys


def sh(cmd, **kw):
    return subprocess.run(cmd, shell=True, capture_output=True, text=True, **kw)


sid, tree = sys.argv[1], os.path.abspath(sys.argv[2])
d = f"/verif/seeded/{sid}"
patch, demo = f"{d}/patch.diff", f"{d}/demo.py"
env = dict(os.environ, PYTHONPATH=tree, PYTHONHASHSEED="0")
head = sh(f"git -C {tree} rev-parse --short HEAD").stdout.strip()
log = {"head": head}
r = subprocess.run(["/venv/bin/python", demo], cwd=tree, env=env,
                   capture_output=True, text=True)
log["demo_before"] = r.returncode
if sh(f"git -C {tree} apply {patch}").returncode:
    print(sid, "patch does not apply")
    sys.exit(2)
try:
    b = sh(f"/verif/tools/baseline.py {tree}")
    log["baseline_after"] = b.returncode
    r = subprocess.run(["/venv/bin/python", demo], cwd=tree, env=env,
                       capture_output=True, text=True)
    log["demo_after"] = r.returncode
finally:
    sh(f"git -C {tree} apply -R {patch}")
ok = log["demo_before"] == 0 and log["demo_after"] != 0 and log["baseline_after"] == 0
m = json.load(open(f"{d}/meta.json"))
m["rebased"] = dict(log, confirmed=ok)
json.dump(m, open(f"{d}/meta.json", "w"), indent=1)
print(sid, "REBASE-CONFIRMED" if ok else "REBASE-NOT-CONFIRMED", log)
sys.exit(0 if ok else 1)
