#!/usr/bin/env python3
"""Print the markdown table of seeded changes (DESIGN.md section 9.7)."""
import glob
import json

rows = []
for f in sorted(glob.glob("/verif/seeded/*/meta.json")):
    m = json.load(open(f))
    det = ", ".join(m.get("detected_by") or []) or "**none**"
    rows.append(f"| {m['id']} | {m['property']} | {m.get('breaks') or ''} | "
                f"{m.get('needs_to_manifest') or ''} | {det} | "
                f"{m.get('note', '')} |")
print("| seed | property | change | needs to manifest | reported by | note |")
print("|------|----------|--------|-------------------|-------------|------|")
print("\n".join(rows))
