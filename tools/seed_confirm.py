#!/venv/bin/python
"""Confirm a seeded change delivered by a sub-agent and file it under
/verif/seeded/<id>/.

usage: seed_confirm.py <id> <property> <deliverable-dir> <worktree> [checks...]
Steps (all in the scratch worktree, never in /repo):
  1. demo.py on the clean tree        -> must exit 0
  2. git apply patch.diff
  3. baseline (151 stable tests)       -> must stay 151/151
  4. demo.py on the changed tree       -> must exit 1
  5. git apply -R; run the named checks (default: the property's) against the
     change via seed_eval --tree
  6. write meta.json, copy patch.diff / demo.py / notes.md
"""
import json
import os
import shutil
import subprocess
import sys


def sh(cmd, **kw):
    return subprocess.run(cmd, shell=True, capture_output=True, text=True, **kw)


def main():
    sid, prop, ddir, tree = sys.argv[1:5]
    checks = [c.upper() for c in sys.argv[5:]] or [prop.upper()]
    ddir, tree = os.path.abspath(ddir), os.path.abspath(tree)
    patch = os.path.join(ddir, "patch.diff")
    demo = os.path.join(ddir, "demo.py")
    env = dict(os.environ, PYTHONPATH=tree, PYTHONHASHSEED="0")
    log = {}
    st = [l for l in sh(f"git -C {tree} status --short").stdout.splitlines()
          if "dx2cube" not in l]
    if st:
        print("worktree not clean:", st)
        return 2
    r = subprocess.run(["/venv/bin/python", demo], cwd=tree, env=env,
                       capture_output=True, text=True)
    log["demo_before"] = {"rc": r.returncode, "tail": (r.stdout + r.stderr)[-400:]}
    r = sh(f"git -C {tree} apply {patch}")
    if r.returncode:
        print("patch does not apply:", r.stderr)
        return 2
    try:
        b = sh(f"/verif/tools/baseline.py {tree}")
        log["baseline_after"] = {"rc": b.returncode, "tail": b.stdout[-300:]}
        r = subprocess.run(["/venv/bin/python", demo], cwd=tree, env=env,
                           capture_output=True, text=True)
        log["demo_after"] = {"rc": r.returncode,
                             "tail": (r.stdout + r.stderr)[-600:]}
    finally:
        sh(f"git -C {tree} apply -R {patch}")
    ok = (log["demo_before"]["rc"] == 0 and log["demo_after"]["rc"] != 0
          and log["baseline_after"]["rc"] == 0)
    print(json.dumps(log, indent=1))
    print("CONFIRMED" if ok else "NOT CONFIRMED")
    if not ok:
        return 1
    ev = sh(f"/verif/tools/seed_eval.py {patch} --tree {tree} " + " ".join(checks))
    print(ev.stdout[-1500:])
    res = {}
    for line in ev.stdout.splitlines():
        if line.startswith("RESULT="):
            res = json.loads(line[7:])
    out = f"/verif/seeded/{sid}"
    os.makedirs(out, exist_ok=True)
    for f in ("patch.diff", "demo.py", "notes.md"):
        if os.path.exists(os.path.join(ddir, f)):
            shutil.copy(os.path.join(ddir, f), os.path.join(out, f))
    meta = {
        "id": sid, "property": prop.upper(),
        "breaks": None, "needs_to_manifest": None,
        "confirmed": log,
        "checks_run": res,
        "detected_by": sorted(c for c, v in res.items() if v["violations"]),
        "how_run": "tools/seed_confirm.py (scratch worktree: demo before, "
                   "git apply, 151-test baseline, demo after, git apply -R, "
                   "tools/seed_eval.py --tree <worktree> <checks>)",
    }
    json.dump(meta, open(os.path.join(out, "meta.json"), "w"), indent=1)
    print("filed under", out, "detected_by", meta["detected_by"])
    return 0


if __name__ == "__main__":
    sys.exit(main())
