#!/usr/bin/env python3
"""Replace the seeded-change table of DESIGN.md section 9.7 by the output of
tools/seed_table.py."""
import subprocess
p = "/verif/DESIGN.md"
s = open(p).read()
table = subprocess.run(["python3", "/verif/tools/seed_table.py"],
                       capture_output=True, text=True).stdout.strip("\n")
head = "| seed | property | change | needs to manifest | reported by | note |"
i = s.index(head)
j = s.index("\nLessons drawn from the misses", i)
s = s[:i] + table + "\n" + s[j:]
open(p, "w").write(s)
print("rows:", table.count("\n") - 1)
