#!/usr/bin/env python3
"""Regenerate /verif/MANIFEST.json from the table below (keeps it valid)."""
import json
import os

HERE = os.path.dirname(os.path.dirname(os.path.abspath(__file__)))
PY = "/venv/bin/python"

# id -> (category, text, level_note, technique, design_ref)
CHECKS = {
    "C07": (
        "model_checking",
        "Every PDB 'edit program' of bounded length (all <=2-edit programs in "
        "quick, <=3 insert edits in thorough) over a bookkeeping/blank/"
        "unknown-line, line-ending, truncation, alt-loc, alias-name and "
        "renumbering alphabet is applied to five small base files in five "
        "model layouts and "
        "run through the real reader and Biomolecule constructor (and end to "
        "end through main_driver --clean, with and without --drop-water); "
        "the ingested atom set must equal an independent column-slicing "
        "reference reader.  Exhaustive inside the stated bound; failures are "
        "delta-minimised to the shortest program.",
        "Trusts the harness reference reader (mc/refs/pdb_ref.py) as the "
        "meaning of the PDB coordinate-record columns; files outside the "
        "alphabet (free-format ATOM lines, interleaved residues, ambiguous "
        "MODEL placement) are not covered.",
        "stateless bounded-exhaustive exploration of the implementation "
        "(all edit programs up to a deviation bound) against a reference "
        "model",
        "DESIGN.md §3 C07",
    ),
    "C01": (
        "model_checking",
        "Three exhaustive blocks: the complete (force field x residue key x "
        "atom) lookup table of all six built-in force fields is diffed "
        "against an independent DAT/.names resolver; every user .names "
        "'program' of <=3 (thorough <=4) sections from a 9-template grammar "
        "is loaded through the real Forcefield class and its whole table "
        "diffed; every tripeptide (33 input residue names x 3 chain "
        "positions), strand and water case x 6 force fields x 3 option sets "
        "is run end to end and every atom of the returned model must be "
        "written with exactly the resolver's parameters for the harness-"
        "inferred state, or be omitted and reported.",
        "Trusts mc/refs/ff_ref.py as the meaning of the documented .names "
        "semantics and mc/corpus.state_ref (state inferred from written "
        "atoms + what the harness built).  Relative to the parameter files.",
        "exhaustive table enumeration + bounded program enumeration + "
        "stateless exploration of the pipeline against a reference model",
        "DESIGN.md §3 C01",
    ),
    "C02": (
        "model_checking",
        "Complete grid (33 input names x 3 positions x 6 force fields x 2 "
        "option sets, PARSE x neutral-terminus subsets), complete chain-"
        "layout alphabet (14 layouts x 20 residue types at the chain ends), "
        "strands of length 1-3 for every nucleotide and cyclic closures on a "
        "distance lattice around 1.35 A (also next to a linear chain sorting "
        "before/after the ring), multi-instance structures (every residue "
        "type several times in one chain); oracle = chemistry table of formal "
        "charges evaluated on the PQR charge column, terminus markers per "
        "built chain end, every built residue present in the model.",
        "Formal-charge table and state inference are the harness's; aborting "
        "runs are counted, not judged (C12).",
        "stateless bounded-exhaustive exploration of the pipeline against a "
        "reference model",
        "DESIGN.md §3 C02",
    ),
    "C03": (
        "model_checking",
        "Corpus S3 (host tripeptide x position x option set x environment "
        "with <=2 deviations: clash probes, omitted/extra atoms, water "
        "lattice, partner poses, backbone gaps, rebuilt-atom clashes, "
        "hydrogen / backbone omissions, asymmetric acids, neutral termini, "
        "ideal-slot partner pairs, the torsion alphabet, alias names, "
        "waters with input hydrogens, sibling-hydrogen groups in both record "
        "orders), chain layouts, real 3-residue windows and the spatial "
        "neighbourhood of every residue of the bundled structures (1469 "
        "hoods) + strands through the real pipeline with "
        "monitors on every Optimize method; the observed automaton of "
        "temporary-atom bookkeeping is reported as states/transitions; "
        "invariants: input heavy atoms conserved unless a deletion warning "
        "names them, model = PQR (+) unassigned, exact topology atom sets, no "
        "temporaries.",
        "Expected atom sets come from the harness's independent reading of "
        "AA.xml/NA.xml/PATCHES.xml; environments are lattice poses.",
        "stateless bounded-exhaustive exploration (deviation-bounded "
        "environments) with an observed-state-machine monitor",
        "DESIGN.md §3 C03",
    ),
    "C04": (
        "model_checking",
        "Corpus S3 through the real pipeline with a monitor around the "
        "torsion-setting routine: exact coordinate preservation of backbone/"
        "caps (and of everything under --clean/--assign-only/--nodebump "
        "--noopt), unchanged bond lengths/angles among input heavy atoms, "
        "and every torsion call audited against the independently parsed "
        "bond graph (moved set = atoms beyond the bond, pure rotation); "
        "environments include several clash probes per residue (further "
        "torsions), rebuilt-atom clashes under --nodebump (also through "
        "the pKa route), real windows and the spatial neighbourhood of every "
        "residue of the bundled structures (hoods).",
        "Lattice geometry; bond graph = union of residue template and "
        "patches parsed by the harness.",
        "stateless bounded-exhaustive exploration with call-level monitors",
        "DESIGN.md §3 C04",
    ),
    "C05": (
        "exploration",
        "Corpus S3 + strands with snapshots at every stage boundary (repair, "
        "both debump passes, hydrogen addition, optimisation, clean-up, "
        "final): every non-input atom within 0.06 A / 8 degrees of its "
        "template bond length / angles and not coincident with another atom.",
        "Continuous geometry on a lattice (hence 'exploration'); tolerances "
        "fixed a priori.",
        "bounded-exhaustive lattice exploration of the pipeline with stage "
        "monitors",
        "DESIGN.md §3 C05",
    ),
    "C06": (
        "model_checking",
        "Complete decision table: titratable group (ASP GLU HIS CYS TYR LYS "
        "ARG N+ C-) x chain position x 6 force fields x pH x pKa lattice (both "
        "sides and equality), driven through main_driver with the pKa source "
        "replaced by a harness table in PROPKA's row shape and through "
        "apply_pka_values directly; a reference decision model built from the "
        "independent force-field resolver decides what must happen (state "
        "change, or default state plus warning); nothing may be dropped; "
        "the residue must carry the formal charge of the state it ended in; "
        "total charge is non-increasing along pH chains (heptapeptide with "
        "all seven groups); pairs of same-type residues whose pKa values "
        "straddle the pH (also told apart by insertion code only); acids "
        "with --noopt / asymmetric carboxylates; "
        "thorough: real PROPKA on bundled proteins.",
        "Support = resolver has every atom of the target state's topology "
        "with integral charge; protonation read from written atom names.",
        "exhaustive decision-table exploration of the implementation against "
        "a reference decision model",
        "DESIGN.md §3 C06",
    ),
    "C08": (
        "model_checking",
        "Complete products of per-field alphabets (all adjacent-column pairs "
        "with full alphabets, reduced 3-value product over all 12 fields, "
        "real serials up to 100001/1234567 through print_biomolecule_atoms) "
        "x {fixed, --whitespace} x {--keep-chain}, written by the real "
        "formatter and main.print_pqr, read back by an independent fixed-"
        "column parser, an independent tokeniser and io.read_pqr; every "
        "field must equal the model; plus end-to-end runs with extreme "
        "numbering/offsets (normal and --clean branch).",
        "Fixed columns per the PDB-compatible layout, tokens per pqr.rst.",
        "exhaustive enumeration of field-value products through the real "
        "serialiser and readers",
        "DESIGN.md §3 C08",
    ),
    "C09": (
        "model_checking",
        "Complete option lattice: 32 subsets of the five formatting options "
        "x --ffout schemes x 6 force fields x 6 structures (one with nine-"
        "character coordinates), each compared "
        "with the subset-free run (identical atom order, residue numbers and "
        "x/y/z/charge/radius strings); --drop-water vs physically water-"
        "deleted input (byte equality); neutral-terminus flag subsets over "
        "all 20 residue types at the chain ends incl. a hidden chain end "
        "(only terminal residues "
        "change, charge shift = termini actually neutralised).",
        "Relational oracle: no expected values, only relations between runs.",
        "exhaustive configuration-lattice exploration with a differential "
        "oracle",
        "DESIGN.md §3 C09",
    ),
    "C10": (
        "model_checking",
        "3 (thorough 4) structures x all 128 subsets of {alt locs, insertion "
        "codes, formal charges, 4-character names, two models (rows not "
        "grouped by model; per-file loop layouts and header variants), negative "
        "numbering, HETATM waters} x {AMBER, PARSE} x {default, --clean}: "
        "PDB text and an independently written mmCIF twin must give the same "
        "atoms, coordinates, charges and radii; failing feature sets are "
        "delta-minimised.",
        "Only the installed mmcif_pdbx 2.1.0 can be executed; the mmCIF "
        "writer is the harness's (header categories copied from 1FAS.cif).",
        "exhaustive feature-subset exploration with a differential oracle",
        "DESIGN.md §3 C10",
    ),
    "C11": (
        "model_checking",
        "Search over run histories in one process: every sequence of <=2 "
        "(thorough <=3) runs from a 19-run alphabet (successes and failures, "
        "titration, ligand, --clean, two user force fields, heavy-atom "
        "repair, refused gapped structure, tolerated parse error, multi-model "
        "PDB and mmCIF files, two real PROPKA runs, an exactly symmetric "
        "structure), plus interleaved repetition histories of length 11-13, "
        "executed in a fresh "
        "child process; each run's PQR bytes must equal those of the run "
        "alone in a fresh process; every run repeated under several hash "
        "seeds; a structural fingerprint of pdb2pqr's module-level state "
        "after every run gives the states/transitions of the process-state "
        "graph.",
        "Fingerprint sees Python-level pdb2pqr state only; never used for "
        "pruning.",
        "bounded-depth exhaustive history search with a differential oracle",
        "DESIGN.md §3 C11",
    ),
    "C12": (
        "fault_enumeration",
        "Success grid (33 input names x 3 positions x 6 force fields with a "
        "near and an isolated water, strands for nucleic force fields, chains "
        "ending in waters/ions, chain layouts, ring + linear chain, "
        "multi-instance structures, alias spellings of atoms / waters / "
        "nucleotides) must complete; failure side: 10 argument "
        "classes, 11 input classes + a 14 x 5 lattice of non-integral "
        "totals, and an injected fault at each of 26 "
        "pipeline call sites x call occurrence {first, second, last} x 4 "
        "exception types x output path {absent, pre-existing sentinel}; "
        "output-path state machine: a failing run leaves absent->absent / "
        "old->old (bytes and mtime), a new file is complete.",
        "Faults are raised at stage entry; the final file write itself is "
        "outside the stages the property lists.",
        "exhaustive fault-site x occurrence x exception enumeration on the "
        "implementation",
        "DESIGN.md §3 C12",
    ),
    "C13": (
        "exploration",
        "SG..SG distance lattice around 2.5 A x 8 layouts x input-HG patterns "
        "x CYS chain position x force fields x option sets; both partners "
        "bridged (no HG, bridged parameters, mutual pointers) below the "
        "limit, both free above it, independent of order/chain/numbering; "
        "rigid placements (24 axis orientations x 8 shifts along the S-S "
        "axis); two pairs in one structure.",
        "Distance is a continuum put on a lattice (hence 'exploration').",
        "complete lattice product exploration of the pipeline",
        "DESIGN.md §3 C13",
    ),
    "C14": (
        "model_checking",
        "(1) exhaustive per-axis cell-key check for sizes 2 and 5 over a "
        "boundary lattice; (2) explicit-state search of the real Cells "
        "object: 2 (thorough 3) atoms x boundary lattice positions x "
        "{add, remove, move, query}, every abstract state built by two "
        "different real histories whose concrete cell maps must agree, "
        "query invariant after every transition (10k states / 778k "
        "transitions quick); (3) every neighbour query of real pipeline runs "
        "compared with brute force over all live atoms (unfiled ones "
        "included), cell map audited for stale/ghost entries "
        "after every optimiser step.",
        "Operations follow the cell list's protocol; (3) detects protocol "
        "breaches by the pipeline.",
        "explicit-state model checking of the real data structure + run-time "
        "monitor",
        "DESIGN.md §3 C14",
    ),
    "C15": (
        "exploration",
        "Every (template, atom, reference neighbours) placement tuple of "
        "AA.xml/NA.xml/PATCHES.xml x rotation lattice x translations up to "
        "9e4 A through quatfit.find_coordinates (exact image to 1e-6 A, no "
        "mirror image, equivariance); every template dihedral x target "
        "angle lattice through Debump.set_dihedral_angle, "
        "Residue.rotate_tetrahedral and qchichange (angle to 0.05 degrees, "
        "axis distances kept).",
        "SO(3) and R^3 on lattices.",
        "complete template-domain x lattice exploration of the numerical "
        "routines",
        "DESIGN.md §3 C15",
    ),
    "C16": (
        "exploration",
        "All connected molecules of <=3 (thorough <=4) heavy atoms over 22 "
        "Sybyl types (+ ring families, 16 bundled ligands) x atom orders x "
        "naming schemes x bond-record orders through the real MOL2 reader "
        "and PEOE: conservation, name independence, order dependence only up "
        "to automorphisms, documented radii; complexes peptide + ligand + "
        "all 32 subsets of other hetero groups x colliding names, ligand "
        "residue names ending in a digit or known to the force field, two "
        "ligand copies.",
        "Phosphorus groups are not judged by the independent formal-charge "
        "model (the code documents a heuristic).",
        "bounded exhaustive molecule/permutation enumeration",
        "DESIGN.md §3 C16",
    ),
    "C17": (
        "exploration",
        "Atom sets on scaled/offset lattices x radii x 3 PQR layouts x sizing "
        "parameters; every <=2-insertion program of 16 non-atom line kinds at "
        "every gap; bulk lattices; 49 bundled PQR files; io.dump_apbs and "
        "--apbs-input end to end; oracle = the property's arithmetic in "
        "exact integers.",
        "Lattice geometry; the memory clause is checked for the grid the "
        "report prints.",
        "bounded exhaustive input/program enumeration against reference "
        "arithmetic",
        "DESIGN.md §3 C17",
    ),
    "C18": (
        "exploration",
        "All grid shapes {1..4}^3 (thorough {1..6}^3) + shapes hitting every "
        "residue mod 3/6 x value patterns (1e-30..1e5, ties, zero) x origins "
        "x spacings x atom lists x DX styles through read_dx/read_pqr/"
        "write_cube; independent cube parser; exact decimal comparison.",
        "Negative counts = angstrom units convention (stated).",
        "bounded exhaustive shape/pattern enumeration with an independent "
        "parser",
        "DESIGN.md §3 C18",
    ),
}

NOT_YET = {}


def main():
    props = [json.loads(l) for l in open(os.path.join(HERE, "properties.jsonl"))]
    checks = []
    na = []
    for p in props:
        pid = p["id"]
        if pid in CHECKS:
            cat, text, note, tech, ref = CHECKS[pid]
            checks.append({
                "property_id": pid,
                "quick_cmd": f"{PY} -m mc.run {pid} quick",
                "thorough_cmd": f"{PY} -m mc.run {pid} thorough",
                "evidence_file": f"/verif/evidence/{pid}.json",
                "replay_cmd_template": f"{PY} -m mc.replay {{path}}",
                "engine": "mc",
                "level_claimed": {"category": cat, "text": text,
                                  "design_ref": ref},
                "level_note": note,
                "technique": tech,
            })
        else:
            na.append({"property_id": pid,
                       "reason": NOT_YET.get(pid, "check not built yet in "
                                             "this round; design in DESIGN.md "
                                             "§3 " + pid)})
    man = {
        "version": 1,
        "setup_cmd": f"{PY} -c \"import pdb2pqr, numpy; print('ok', pdb2pqr.__file__)\"",
        "hooks": {
            "guard": "PDB2PQR_VERIF",
            "enable": "none needed: pdb2pqr is an editable install imported "
                      "from /repo's working tree; all monitors are installed "
                      "from the harness at run time (no source hooks)",
            "baseline_off_cmd": "cd /repo && /venv/bin/python -m pytest -ra -q "
                                "-p no:cacheprovider --timeout=900 "
                                "--continue-on-collection-errors",
            "source_commits": [],
            "add_only": True,
        },
        "engines": [{
            "name": "mc",
            "path": "/verif/mc",
            "serves_properties": sorted(CHECKS),
            "kind_free_text": "hand-written bounded-exhaustive explorer for "
                              "Python: case enumerators, persistent worker "
                              "pool executing the real pdb2pqr code, "
                              "explicit-state BFS helpers, reference models, "
                              "known-finding matching, fresh-process replay",
        }],
        "checks": checks,
        "not_applicable": na,
        "notes": "All checks: cwd=/verif, honour VERIF_SEED/VERIF_TIER, "
                 "rewrite their evidence file on every run, import pdb2pqr "
                 "from /repo's working tree (asserted).  Fixes to /repo are "
                 "listed in known_findings.json (status=fixed).",
    }
    with open(os.path.join(HERE, "MANIFEST.json"), "w") as f:
        json.dump(man, f, indent=1)
        f.write("\n")


if __name__ == "__main__":
    main()
