#!/usr/bin/env python3
"""Regenerate /verif/MANIFEST.json from the table below (keeps it valid)."""
import json
import os

HERE = os.path.dirname(os.path.dirname(os.path.abspath(__file__)))
PY = "/venv/bin/python"

# id -> (category, text, level_note, technique, design_ref)
CHECKS = {
    "C07": (
        "model_checking",
        "Every PDB 'edit program' of bounded length (all <=2-edit programs in "
        "quick, <=3 insert edits in thorough) over a bookkeeping/blank/"
        "unknown-line, line-ending, truncation, alt-loc and renumbering "
        "alphabet is applied to small base files in five model layouts and "
        "run through the real reader and Biomolecule constructor (and end to "
        "end through main_driver --clean, with and without --drop-water); "
        "the ingested atom set must equal an independent column-slicing "
        "reference reader.  Exhaustive inside the stated bound; failures are "
        "delta-minimised to the shortest program.",
        "Trusts the harness reference reader (mc/refs/pdb_ref.py) as the "
        "meaning of the PDB coordinate-record columns; files outside the "
        "alphabet (free-format ATOM lines, interleaved residues, ambiguous "
        "MODEL placement) are not covered.",
        "stateless bounded-exhaustive exploration of the implementation "
        "(all edit programs up to a deviation bound) against a reference "
        "model",
        "DESIGN.md §3 C07",
    ),
    "C01": (
        "model_checking",
        "Three exhaustive blocks: the complete (force field x residue key x "
        "atom) lookup table of all six built-in force fields is diffed "
        "against an independent DAT/.names resolver; every user .names "
        "'program' of <=3 (thorough <=4) sections from a 9-template grammar "
        "is loaded through the real Forcefield class and its whole table "
        "diffed; every tripeptide (33 input residue names x 3 chain "
        "positions), strand and water case x 6 force fields x 3 option sets "
        "is run end to end and every atom of the returned model must be "
        "written with exactly the resolver's parameters for the harness-"
        "inferred state, or be omitted and reported.",
        "Trusts mc/refs/ff_ref.py as the meaning of the documented .names "
        "semantics and mc/corpus.state_ref (state inferred from written "
        "atoms + what the harness built).  Relative to the parameter files.",
        "exhaustive table enumeration + bounded program enumeration + "
        "stateless exploration of the pipeline against a reference model",
        "DESIGN.md §3 C01",
    ),
    "C02": (
        "model_checking",
        "Complete grid (33 input names x 3 positions x 6 force fields x 2 "
        "option sets, PARSE x neutral-terminus subsets), complete chain-"
        "layout alphabet (14 layouts x 20 residue types at the chain ends), "
        "strands of length 1-3 for every nucleotide and cyclic closures on a "
        "distance lattice around 1.35 A; oracle = chemistry table of formal "
        "charges evaluated on the PQR charge column, terminus markers per "
        "built chain end.",
        "Formal-charge table and state inference are the harness's; aborting "
        "runs are counted, not judged (C12).",
        "stateless bounded-exhaustive exploration of the pipeline against a "
        "reference model",
        "DESIGN.md §3 C02",
    ),
    "C03": (
        "model_checking",
        "Corpus S3 (host tripeptide x position x option set x environment "
        "with <=2 deviations: clash probes, omitted/extra atoms, water "
        "lattice, partner poses) + strands through the real pipeline with "
        "monitors on every Optimize method; the observed automaton of "
        "temporary-atom bookkeeping is reported as states/transitions; "
        "invariants: input heavy atoms conserved unless a deletion warning "
        "names them, model = PQR (+) unassigned, exact topology atom sets, no "
        "temporaries.",
        "Expected atom sets come from the harness's independent reading of "
        "AA.xml/NA.xml/PATCHES.xml; environments are lattice poses.",
        "stateless bounded-exhaustive exploration (deviation-bounded "
        "environments) with an observed-state-machine monitor",
        "DESIGN.md §3 C03",
    ),
    "C04": (
        "model_checking",
        "Corpus S3 through the real pipeline with a monitor around the "
        "torsion-setting routine: exact coordinate preservation of backbone/"
        "caps (and of everything under --clean/--assign-only/--nodebump "
        "--noopt), unchanged bond lengths/angles among input heavy atoms, "
        "and every torsion call audited against the independently parsed "
        "bond graph (moved set = atoms beyond the bond, pure rotation).",
        "Lattice geometry; bond graph = union of residue template and "
        "patches parsed by the harness.",
        "stateless bounded-exhaustive exploration with call-level monitors",
        "DESIGN.md §3 C04",
    ),
    "C05": (
        "exploration",
        "Corpus S3 + strands with snapshots at every stage boundary (repair, "
        "both debump passes, hydrogen addition, optimisation, clean-up, "
        "final): every non-input atom within 0.06 A / 8 degrees of its "
        "template bond length / angles and not coincident with another atom.",
        "Continuous geometry on a lattice (hence 'exploration'); tolerances "
        "fixed a priori.",
        "bounded-exhaustive lattice exploration of the pipeline with stage "
        "monitors",
        "DESIGN.md §3 C05",
    ),
}

NOT_YET = {}


def main():
    props = [json.loads(l) for l in open(os.path.join(HERE, "properties.jsonl"))]
    checks = []
    na = []
    for p in props:
        pid = p["id"]
        if pid in CHECKS:
            cat, text, note, tech, ref = CHECKS[pid]
            checks.append({
                "property_id": pid,
                "quick_cmd": f"{PY} -m mc.run {pid} quick",
                "thorough_cmd": f"{PY} -m mc.run {pid} thorough",
                "evidence_file": f"/verif/evidence/{pid}.json",
                "replay_cmd_template": f"{PY} -m mc.replay {{path}}",
                "engine": "mc",
                "level_claimed": {"category": cat, "text": text,
                                  "design_ref": ref},
                "level_note": note,
                "technique": tech,
            })
        else:
            na.append({"property_id": pid,
                       "reason": NOT_YET.get(pid, "check not built yet in "
                                             "this round; design in DESIGN.md "
                                             "§3 " + pid)})
    man = {
        "version": 1,
        "setup_cmd": f"{PY} -c \"import pdb2pqr, numpy; print('ok', pdb2pqr.__file__)\"",
        "hooks": {
            "guard": "PDB2PQR_VERIF",
            "enable": "none needed: pdb2pqr is an editable install imported "
                      "from /repo's working tree; all monitors are installed "
                      "from the harness at run time (no source hooks)",
            "baseline_off_cmd": "cd /repo && /venv/bin/python -m pytest -ra -q "
                                "-p no:cacheprovider --timeout=900 "
                                "--continue-on-collection-errors",
            "source_commits": [],
            "add_only": True,
        },
        "engines": [{
            "name": "mc",
            "path": "/verif/mc",
            "serves_properties": sorted(CHECKS),
            "kind_free_text": "hand-written bounded-exhaustive explorer for "
                              "Python: case enumerators, persistent worker "
                              "pool executing the real pdb2pqr code, "
                              "explicit-state BFS helpers, reference models, "
                              "known-finding matching, fresh-process replay",
        }],
        "checks": checks,
        "not_applicable": na,
        "notes": "All checks: cwd=/verif, honour VERIF_SEED/VERIF_TIER, "
                 "rewrite their evidence file on every run, import pdb2pqr "
                 "from /repo's working tree (asserted).  Fixes to /repo are "
                 "listed in known_findings.json (status=fixed).",
    }
    with open(os.path.join(HERE, "MANIFEST.json"), "w") as f:
        json.dump(man, f, indent=1)
        f.write("\n")


if __name__ == "__main__":
    main()
