#!/usr/bin/env python3
"""Regenerate /verif/MANIFEST.json from the table below (keeps it valid)."""
import json
import os

HERE = os.path.dirname(os.path.dirname(os.path.abspath(__file__)))
PY = "/venv/bin/python"

# id -> (category, text, level_note, technique, design_ref)
CHECKS = {
    "C07": (
        "model_checking",
        "Every PDB 'edit program' of bounded length (all <=2-edit programs in "
        "quick, <=3 insert edits in thorough) over a bookkeeping/blank/"
        "unknown-line, line-ending, truncation, alt-loc and renumbering "
        "alphabet is applied to small base files in five model layouts and "
        "run through the real reader and Biomolecule constructor (and end to "
        "end through main_driver --clean, with and without --drop-water); "
        "the ingested atom set must equal an independent column-slicing "
        "reference reader.  Exhaustive inside the stated bound; failures are "
        "delta-minimised to the shortest program.",
        "Trusts the harness reference reader (mc/refs/pdb_ref.py) as the "
        "meaning of the PDB coordinate-record columns; files outside the "
        "alphabet (free-format ATOM lines, interleaved residues, ambiguous "
        "MODEL placement) are not covered.",
        "stateless bounded-exhaustive exploration of the implementation "
        "(all edit programs up to a deviation bound) against a reference "
        "model",
        "DESIGN.md §3 C07",
    ),
}

NOT_YET = {}


def main():
    props = [json.loads(l) for l in open(os.path.join(HERE, "properties.jsonl"))]
    checks = []
    na = []
    for p in props:
        pid = p["id"]
        if pid in CHECKS:
            cat, text, note, tech, ref = CHECKS[pid]
            checks.append({
                "property_id": pid,
                "quick_cmd": f"{PY} -m mc.run {pid} quick",
                "thorough_cmd": f"{PY} -m mc.run {pid} thorough",
                "evidence_file": f"/verif/evidence/{pid}.json",
                "replay_cmd_template": f"{PY} -m mc.replay {{path}}",
                "engine": "mc",
                "level_claimed": {"category": cat, "text": text,
                                  "design_ref": ref},
                "level_note": note,
                "technique": tech,
            })
        else:
            na.append({"property_id": pid,
                       "reason": NOT_YET.get(pid, "check not built yet in "
                                             "this round; design in DESIGN.md "
                                             "§3 " + pid)})
    man = {
        "version": 1,
        "setup_cmd": f"{PY} -c \"import pdb2pqr, numpy; print('ok', pdb2pqr.__file__)\"",
        "hooks": {
            "guard": "PDB2PQR_VERIF",
            "enable": "none needed: pdb2pqr is an editable install imported "
                      "from /repo's working tree; all monitors are installed "
                      "from the harness at run time (no source hooks)",
            "baseline_off_cmd": "cd /repo && /venv/bin/python -m pytest -ra -q "
                                "-p no:cacheprovider --timeout=900 "
                                "--continue-on-collection-errors",
            "source_commits": [],
            "add_only": True,
        },
        "engines": [{
            "name": "mc",
            "path": "/verif/mc",
            "serves_properties": sorted(CHECKS),
            "kind_free_text": "hand-written bounded-exhaustive explorer for "
                              "Python: case enumerators, persistent worker "
                              "pool executing the real pdb2pqr code, "
                              "explicit-state BFS helpers, reference models, "
                              "known-finding matching, fresh-process replay",
        }],
        "checks": checks,
        "not_applicable": na,
        "notes": "All checks: cwd=/verif, honour VERIF_SEED/VERIF_TIER, "
                 "rewrite their evidence file on every run, import pdb2pqr "
                 "from /repo's working tree (asserted).  Fixes to /repo are "
                 "listed in known_findings.json (status=fixed).",
    }
    with open(os.path.join(HERE, "MANIFEST.json"), "w") as f:
        json.dump(man, f, indent=1)
        f.write("\n")


if __name__ == "__main__":
    main()
