#!/usr/bin/env python3
"""seed_meta.py <id> <breaks> <needs_to_manifest> [detected_by_extra...]: fill
the descriptive fields of /verif/seeded/<id>/meta.json."""
import json
import sys

sid, breaks, needs = sys.argv[1:4]
p = f"/verif/seeded/{sid}/meta.json"
m = json.load(open(p))
m["breaks"] = breaks
m["needs_to_manifest"] = needs
for extra in sys.argv[4:]:
    k, v = extra.split("=", 1)
    m[k] = v
json.dump(m, open(p, "w"), indent=1)
print(sid, "detected_by", m["detected_by"])
